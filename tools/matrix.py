#!/usr/bin/env python3
"""Cross matrix: every seeded change x every check (reduced budget). Writes seeded/MATRIX.json incrementally."""
import json, os, subprocess, sys, tempfile, shutil
VERIF = os.path.dirname(os.path.dirname(os.path.abspath(__file__)))
ALL = [f"C{n:02d}" for n in range(1, 21)]
out_path = os.path.join(VERIF, "seeded", "MATRIX.json")
matrix = json.load(open(out_path)) if os.path.exists(out_path) else {}
scale = os.environ.get("VCHECK_BUDGET_SCALE", "0.3")
names = sorted(d for d in os.listdir(os.path.join(VERIF, "seeded")) if os.path.isdir(os.path.join(VERIF, "seeded", d)))
if len(sys.argv) > 1:
    names = [n for n in names if n in sys.argv[1:]]
for name in names:
    if name in matrix and len(matrix[name]) == len(ALL):
        continue
    wt = tempfile.mkdtemp(prefix="mx-", dir="/tmp"); os.rmdir(wt)
    subprocess.run(["git", "-C", "/repo", "worktree", "add", "-q", "--detach", wt, "HEAD"], check=True)
    try:
        res = subprocess.run(["git", "-C", wt, "apply", os.path.join(VERIF, "seeded", name, "patch.diff")], capture_output=True, text=True)
        if res.returncode:
            matrix[name] = {"error": "patch does not apply: " + res.stderr[:200]}
            continue
        row = matrix.get(name, {})
        env = dict(os.environ, VCHECK_REPO=wt, VCHECK_BUDGET_SCALE=scale)
        for cid in ALL:
            if cid in row:
                continue
            r = subprocess.run(["/venv/bin/python", "-m", "vcheck", cid, "--tier", "quick"], cwd=VERIF, env=env, capture_output=True, text=True)
            row[cid] = {0: "held", 1: "VIOLATION", 2: "inconclusive"}.get(r.returncode, str(r.returncode))
            matrix[name] = row
            json.dump(matrix, open(out_path, "w"), indent=1)
        print(name, [c for c, v in row.items() if v == "VIOLATION"], flush=True)
    finally:
        subprocess.run(["git", "-C", "/repo", "worktree", "remove", "--force", wt])
        shutil.rmtree(wt, ignore_errors=True)
json.dump(matrix, open(out_path, "w"), indent=1)
