#!/usr/bin/env python3
"""Regenerate DESIGN.md section 10 'As built: what each check drives and observes' from the check modules."""
import importlib, os, re, sys
VERIF = os.path.dirname(os.path.dirname(os.path.abspath(__file__)))
sys.path.insert(0, VERIF)
out = ["## 10. As built: what each check drives and observes", "",
       "Generated from the check modules (`RULE`, `MUST_REACH`, `ASSUMPTIONS`, budgets) by `tools/design_built.py`. `MUST_REACH` are the",
       "counters of deciding monitors: a run in which one of them stays 0, or that judges fewer executions than the floor, exits",
       "INCONCLUSIVE (2), never 'held'.", ""]
for n in range(1, 21):
    cid = f"C{n:02d}"
    mod = importlib.import_module(f"vcheck.checks.{cid}")
    doc = (mod.__doc__ or "").strip().split("\n\n", 1)
    out.append(f"### {doc[0]}")
    if len(doc) > 1:
        out.append(" ".join(doc[1].split()))
    out.append("")
    out.append(f"* **workload**: {mod.RULE}")
    out.append(f"* **deciding monitors that must be reached**: {', '.join(getattr(mod, 'MUST_REACH', ()))}")
    out.append(f"* **level / budgets**: {mod.LEVEL}; quick {mod.BUDGET_S['quick']} s per shard x 16 shards (floor {mod.FLOOR['quick']} judged), "
               f"thorough {mod.BUDGET_S['thorough']} s (floor {mod.FLOOR['thorough']})")
    for a in getattr(mod, "ASSUMPTIONS", []):
        out.append(f"* assumption: {a}")
    out.append("")
design = open(os.path.join(VERIF, "DESIGN.md")).read()
design = re.sub(r"\n## 10\. As built.*?(?=\n## 11\. |\Z)", "\n", design, flags=re.S)
# section 11 (seeded changes) stays last
idx = design.find("\n## 11. Seeded changes")
text = "\n".join(out)
if idx >= 0:
    design = design[:idx].rstrip("\n") + "\n\n\n" + text + "\n\n" + design[idx:].lstrip("\n")
else:
    design = design.rstrip("\n") + "\n\n\n" + text + "\n"
open(os.path.join(VERIF, "DESIGN.md"), "w").write(design)
print("section 11 written")
