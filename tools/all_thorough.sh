#!/bin/sh
# run every check's thorough tier once (used with `vp run`); prints one summary line per check
seed=${VERIF_SEED:-0}
for c in C05 C09 C13 C14 C12 C17 C20 C15 C18 C10 C01 C03 C11 C06 C07 C08 C19 C16 C02 C04; do
  start=$(date +%s)
  VERIF_SEED=$seed /venv/bin/python -m vcheck $c --tier thorough > thorough_$c.log 2>&1
  rc=$?
  echo "$c rc=$rc $(( $(date +%s) - start ))s viol=$(grep -c '^VIOLATION' thorough_$c.log) incon=$(grep -c '^INCONCLUSIVE' thorough_$c.log) :: $(grep -E '^C[0-9]+ tier' thorough_$c.log | cut -c1-200)"
  grep -A2 '^VIOLATION' thorough_$c.log | head -12
  grep '^INCONCLUSIVE' thorough_$c.log | head -3 | cut -c1-400
done
