#!/usr/bin/env python3
"""Import a sub-agent's seeded change (/tmp/seed<R>-<CID>/out/<X>) into seeded/<CID>-<R><X>, verify it and run the owning check.

usage: tools/import_seed.py <round> <CID> [X ...]
"""
import json
import os
import shutil
import subprocess
import sys

VERIF = os.path.dirname(os.path.dirname(os.path.abspath(__file__)))
rnd, cid = sys.argv[1], sys.argv[2]
letters = sys.argv[3:] or ["A", "B"]
for x in letters:
    src = f"/tmp/seed{rnd}-{cid}/out/{x}"
    if not os.path.exists(src + "/patch.diff"):
        print(cid, x, "no patch")
        continue
    dst = f"{VERIF}/seeded/{cid}-{rnd}{x}"
    os.makedirs(dst, exist_ok=True)
    for f in ("patch.diff", "demo.py", "meta.json"):
        shutil.copy(f"{src}/{f}", f"{dst}/{f}")
    res = subprocess.run(["/venv/bin/python", f"{VERIF}/tools/seedtest.py", dst, "--verify"], capture_output=True, text=True)
    try:
        out = json.loads(res.stdout[res.stdout.index("{"):])
    except ValueError:
        print(cid, x, "seedtest failed", res.stdout[-500:], res.stderr[-500:])
        continue
    meta = json.load(open(dst + "/meta.json"))
    ok = out.get("applies") and out.get("tests_rc") in (0, 1) and "failed" not in out.get("tests_tail", "").replace("1 failed", "") \
        and out.get("demo_clean_rc") == 0 and out.get("demo_mutant_rc") not in (0, None)
    if rnd == "10":
        meta["origin"] = "independent sub-agent, round 10 (only the text of the property and a scratch worktree of /repo; one change per agent under a 8-9 minute limit)"
    else:
      meta["origin"] = f"independent sub-agent, round {rnd} (property text, scratch worktree, one-line summaries of earlier changes to avoid, and a description of the harness as a randomised monitor that also drives histories)"
    meta["verified_by_me"] = {"repo_tests_tail": out.get("tests_tail"), "demo_passes_without": out.get("demo_clean_rc") == 0,
                              "demo_fails_with": out.get("demo_mutant_rc") not in (0, None),
                              "how": "tools/seedtest.py <dir> --verify (scratch worktree of /repo HEAD under /tmp, removed afterwards)"}
    meta["owning_check"] = cid
    chk = out.get("checks", {}).get(cid, {})
    meta["owning_check_verdict"] = "VIOLATION" if chk.get("rc") == 1 else ("held" if chk.get("rc") == 0 else f"rc={chk.get('rc')}")
    meta["first_evaluation"] = {"rc": chk.get("rc"), "what": chk.get("what"), "inconclusive": chk.get("inconclusive")}
    json.dump(meta, open(dst + "/meta.json", "w"), indent=1)
    print(cid, x, "verified" if ok else "NOT-VERIFIED", out.get("tests_tail"), "clean", out.get("demo_clean_rc"), "mutant", out.get("demo_mutant_rc"),
          "->", meta["owning_check_verdict"], chk.get("what"), chk.get("inconclusive"))
