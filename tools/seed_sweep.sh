#!/bin/sh
# quick tier of every check for several seeds; one line per run
bad=0
for seed in ${SEEDS:-1 2 3 4 5}; do
  for c in C01 C02 C03 C04 C05 C06 C07 C08 C09 C10 C11 C12 C13 C14 C15 C16 C17 C18 C19 C20; do
    VERIF_SEED=$seed /venv/bin/python -m vcheck $c --tier quick > sweep_${c}_$seed.log 2>&1
    rc=$?
    echo "seed=$seed $c rc=$rc viol=$(grep -c '^VIOLATION' sweep_${c}_$seed.log) incon=$(grep -c '^INCONCLUSIVE' sweep_${c}_$seed.log) $(grep -E '^C[0-9]+ tier' sweep_${c}_$seed.log | cut -c1-90)"
    [ $rc -ne 0 ] && bad=$((bad+1)) && grep -A3 -E '^VIOLATION|^INCONCLUSIVE' sweep_${c}_$seed.log | head -12 | cut -c1-500
  done
done
echo "runs with a non-zero exit: $bad"
[ $bad -eq 0 ]
