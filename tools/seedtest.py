#!/usr/bin/env python3
"""Run checks against a seeded change in a scratch worktree outside /repo and /verif.

usage: tools/seedtest.py <dir with patch.diff [+ demo.py + meta.json]> [--checks C01,C05|all] [--tier quick] [--verify]
--verify additionally runs the repository's own test-suite (must pass) and the demo (must fail with, pass without).
The worktree is removed afterwards.
"""
import argparse
import json
import os
import shutil
import subprocess
import sys
import tempfile

VERIF = os.path.dirname(os.path.dirname(os.path.abspath(__file__)))
PY = "/venv/bin/python"
ALL = [f"C{n:02d}" for n in range(1, 21)]


def sh(cmd, cwd=None, env=None, timeout=3600):
    return subprocess.run(cmd, cwd=cwd, env=env, shell=isinstance(cmd, str), capture_output=True, text=True, timeout=timeout)


def main():
    par = argparse.ArgumentParser()
    par.add_argument("seed_dir")
    par.add_argument("--checks", default="")
    par.add_argument("--tier", default="quick")
    par.add_argument("--verify", action="store_true")
    par.add_argument("--seed", default="0")
    args = par.parse_args()
    seed_dir = os.path.abspath(args.seed_dir)
    patch = os.path.join(seed_dir, "patch.diff")
    meta = {}
    if os.path.exists(os.path.join(seed_dir, "meta.json")):
        meta = json.load(open(os.path.join(seed_dir, "meta.json")))
    checks = ALL if args.checks == "all" else [c for c in (args.checks or meta.get("property", "")).split(",") if c]
    wt = tempfile.mkdtemp(prefix="mut-", dir="/tmp")
    os.rmdir(wt)
    out = {"seed_dir": seed_dir, "property": meta.get("property")}
    try:
        res = sh(["git", "-C", "/repo", "worktree", "add", "-q", "--detach", wt, "HEAD"])
        if res.returncode:
            print("worktree failed", res.stderr)
            return 2
        demo = os.path.join(seed_dir, "demo.py")
        if args.verify and os.path.exists(demo):
            res = sh([PY, demo], cwd=wt)
            out["demo_clean_rc"] = res.returncode
        res = sh(["git", "-C", wt, "apply", patch])
        if res.returncode:
            print("patch does not apply:", res.stderr[:500])
            out["applies"] = False
            print(json.dumps(out))
            return 2
        out["applies"] = True
        if args.verify:
            res = sh([PY, "-m", "pytest", "-q", "-p", "no:cacheprovider", "-x", "--deselect",
                      "tests/test__package.py::test__last_modified_date"], cwd=wt)
            out["tests_rc"] = res.returncode
            out["tests_tail"] = res.stdout.strip().split("\n")[-1][:200]
            if os.path.exists(demo):
                res = sh([PY, demo], cwd=wt)
                out["demo_mutant_rc"] = res.returncode
        env = dict(os.environ, VCHECK_REPO=wt, VERIF_SEED=args.seed)
        results = {}
        for cid in checks:
            res = sh([PY, "-m", "vcheck", cid, "--tier", args.tier], cwd=VERIF, env=env)
            viol = [ln for ln in res.stdout.split("\n") if ln.startswith("VIOLATION")]
            what = [ln.strip() for ln in res.stdout.split("\n") if ln.strip().startswith("what:")]
            results[cid] = {"rc": res.returncode, "violations": len(viol), "what": what[:2],
                            "inconclusive": [ln[:200] for ln in res.stdout.split("\n") if ln.startswith("INCONCLUSIVE")][:2]}
        out["checks"] = results
        out["caught_by"] = [c for c, r in results.items() if r["rc"] == 1]
    finally:
        sh(["git", "-C", "/repo", "worktree", "remove", "--force", wt])
        shutil.rmtree(wt, ignore_errors=True)
        sh(["git", "-C", "/repo", "worktree", "prune"])
    print(json.dumps(out, indent=1))
    return 0


if __name__ == "__main__":
    sys.exit(main())
