#!/usr/bin/env python3
"""Run the owning check (full quick budget) against every kept seeded change; writes seeded/RESULTS.json."""
import json, os, subprocess, sys
VERIF = os.path.dirname(os.path.dirname(os.path.abspath(__file__)))
sd = os.path.join(VERIF, "seeded")
out_path = os.path.join(sd, "RESULTS.json")
results = json.load(open(out_path)) if os.path.exists(out_path) else {}
names = sorted(d for d in os.listdir(sd) if os.path.isdir(os.path.join(sd, d)))
if len(sys.argv) > 1:
    names = [n for n in names if n in sys.argv[1:]]
for name in names:
    meta = json.load(open(os.path.join(sd, name, "meta.json")))
    res = subprocess.run(["python3", os.path.join(VERIF, "tools", "seedtest.py"), os.path.join(sd, name), "--checks", meta["owning_check"]],
                         capture_output=True, text=True)
    try:
        data = json.loads(res.stdout)
        chk = data["checks"][meta["owning_check"]]
        results[name] = {"owning_check": meta["owning_check"], "verdict": {0: "held", 1: "VIOLATION", 2: "inconclusive"}.get(chk["rc"], str(chk["rc"])),
                         "what": chk["what"][:1]}
    except Exception as ex:  # noqa
        results[name] = {"error": str(ex), "stdout": res.stdout[-300:]}
    json.dump(results, open(out_path, "w"), indent=1)
    print(name, results[name], flush=True)
