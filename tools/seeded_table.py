#!/usr/bin/env python3
"""Regenerate section 11 of DESIGN.md from seeded/*/meta.json (+ seeded/MATRIX.json when present)."""
import json, os, re
VERIF = os.path.dirname(os.path.dirname(os.path.abspath(__file__)))
sd = os.path.join(VERIF, "seeded")
matrix = json.load(open(os.path.join(sd, "MATRIX.json"))) if os.path.exists(os.path.join(sd, "MATRIX.json")) else {}
rows = []
for name in sorted(os.listdir(sd)):
    mp = os.path.join(sd, name, "meta.json")
    if not os.path.exists(mp):
        continue
    m = json.load(open(mp))
    summ = " ".join(str(m.get("summary", "")).split())
    summ = summ[:230] + ("…" if len(summ) > 230 else "")
    others = sorted(c for c, v in matrix.get(name, {}).items() if v == "VIOLATION" and c != m.get("owning_check"))
    own = m.get("owning_check_verdict") or matrix.get(name, {}).get(m.get("owning_check"), "VIOLATION")
    if m.get("not_caught_because"):
        own = "held — " + m["not_caught_because"]
    first = ("no → " + m.get("strengthening", "strengthened")) if m.get("missed_by_first_version_of_check") else "yes"
    if m.get("not_caught_because"):
        first = "no"
    rows.append(f"| {name} | {m.get('owning_check')} | {', '.join(m.get('files', []))[:60]} | {summ.replace('|', '/')} | {first} | {own if isinstance(own, str) else own} | {', '.join(others) or '-'} |")
text = ["## 11. Seeded changes and which checks catch them", "",
        "Changes produced by independent sub-agents. Round 1: each agent got only the text of one property and a scratch worktree of",
        "/repo. From round 2 on the prompt also listed one-line summaries of the earlier changes for that property (so that they are not",
        "repeated) and, from round 3 on, a prose description of what kind of workloads the harness drives (so that the new changes aim",
        "at its blind spots); round 10 (a later session) went back to the round-1 protocol: only the property text and a worktree, one",
        "change per agent; no file of /verif was ever shown (`origin` in each meta.json says what the author knew). Every change kept",
        "here was confirmed by me with `tools/seedtest.py <dir> --verify` in a scratch worktree outside /repo and /verif: the repository's",
        "tests pass with it, its demo fails with it and passes without it. `first version` says whether the owning check caught it when",
        "it was first evaluated (else: what was widened); `owning check now` is the verdict of the owning check at its last evaluation",
        "with the full quick budget (rounds 1-3: re-verification recorded in `seeded/RESULTS.json`; later rounds: right after the widening",
        "that the change led to); `also caught by` comes from the partial cross matrix `seeded/MATRIX.json` of round 1.", "",
        "| change | property | files | what it does | first version caught it | owning check now | also caught by |",
        "|---|---|---|---|---|---|---|"] + rows + [""]
notes = os.path.join(sd, "NOTES.md")
if os.path.exists(notes):
    text += [open(notes).read()]
# rounds 2+: one line per change the first evaluation missed (from meta.json)
later = ["", "### 11.2 Rounds 2 and later: what each miss led to", "",
         "`closed by` names the widening of the workload or of the observation (never a loosened oracle); `left open` gives the",
         "reason the change is outside the property as stated.", ""]
for name in sorted(os.listdir(sd)):
    mp = os.path.join(sd, name, "meta.json")
    if not os.path.exists(mp) or re.fullmatch(r"C\d\d-[AB]", name):
        continue
    m = json.load(open(mp))
    if m.get("not_caught_because"):
        later.append(f"* **{name}** — left open: {' '.join(m['not_caught_because'].split())}")
    elif m.get("missed_by_first_version_of_check"):
        later.append(f"* **{name}** — closed by: {' '.join(str(m.get('strengthening')).split())}")
text += later + [""]
design = open(os.path.join(VERIF, "DESIGN.md")).read()
design = re.sub(r"\n## 11\. Seeded changes.*", "", design, flags=re.S).rstrip("\n") + "\n\n\n" + "\n".join(text)
open(os.path.join(VERIF, "DESIGN.md"), "w").write(design)
print(len(rows), "rows")
