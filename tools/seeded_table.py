#!/usr/bin/env python3
"""Regenerate section 11 of DESIGN.md from seeded/*/meta.json (+ seeded/MATRIX.json when present)."""
import json, os, re
VERIF = os.path.dirname(os.path.dirname(os.path.abspath(__file__)))
sd = os.path.join(VERIF, "seeded")
matrix = json.load(open(os.path.join(sd, "MATRIX.json"))) if os.path.exists(os.path.join(sd, "MATRIX.json")) else {}
rows = []
for name in sorted(os.listdir(sd)):
    mp = os.path.join(sd, name, "meta.json")
    if not os.path.exists(mp):
        continue
    m = json.load(open(mp))
    summ = " ".join(str(m.get("summary", "")).split())
    summ = summ[:230] + ("…" if len(summ) > 230 else "")
    others = sorted(c for c, v in matrix.get(name, {}).items() if v == "VIOLATION" and c != m.get("owning_check"))
    own = m.get("owning_check_verdict") or matrix.get(name, {}).get(m.get("owning_check"), "VIOLATION")
    if m.get("not_caught_because"):
        own = "held — " + m["not_caught_because"]
    first = ("no → " + m.get("strengthening", "strengthened")) if m.get("missed_by_first_version_of_check") else "yes"
    if m.get("not_caught_because"):
        first = "no"
    rows.append(f"| {name} | {m.get('owning_check')} | {', '.join(m.get('files', []))[:60]} | {summ.replace('|', '/')} | {first} | {own if isinstance(own, str) else own} | {', '.join(others) or '-'} |")
text = ["## 11. Seeded changes and which checks catch them", "",
        "Changes produced by independent sub-agents (each given only the text of one property and a scratch worktree of /repo; nothing",
        "from /verif). Every change kept here was confirmed by me with `tools/seedtest.py <dir> --verify`: the repository's tests pass with",
        "it, its demo fails with it and passes without it. `first version` says whether the owning check as first built caught it;",
        "`owning check now` is the verdict of the current check (full quick budget); `also caught by` comes from the cross matrix",
        "`seeded/MATRIX.json` (every check against every change at 30 % of the quick budget, so a miss there is weaker evidence than a hit).", "",
        "| change | property | files | what it does | first version caught it | owning check now | also caught by |",
        "|---|---|---|---|---|---|---|"] + rows + [""]
notes = os.path.join(sd, "NOTES.md")
if os.path.exists(notes):
    text += [open(notes).read()]
# rounds 2+: one line per change the first evaluation missed (from meta.json)
later = ["", "### 11.2 Rounds 2 and later: what each miss led to", "",
         "`closed by` names the widening of the workload or of the observation (never a loosened oracle); `left open` gives the",
         "reason the change is outside the property as stated.", ""]
for name in sorted(os.listdir(sd)):
    mp = os.path.join(sd, name, "meta.json")
    if not os.path.exists(mp) or re.fullmatch(r"C\d\d-[AB]", name):
        continue
    m = json.load(open(mp))
    if m.get("not_caught_because"):
        later.append(f"* **{name}** — left open: {' '.join(m['not_caught_because'].split())}")
    elif m.get("missed_by_first_version_of_check"):
        later.append(f"* **{name}** — closed by: {' '.join(str(m.get('strengthening')).split())}")
text += later + [""]
design = open(os.path.join(VERIF, "DESIGN.md")).read()
design = re.sub(r"\n## 11\. Seeded changes.*", "", design, flags=re.S).rstrip("\n") + "\n\n\n" + "\n".join(text)
open(os.path.join(VERIF, "DESIGN.md"), "w").write(design)
print(len(rows), "rows")
