"""python -m vcheck <ID> --tier quick|thorough [--seed N] [--replay path]."""

import argparse
import os
import sys

from vcheck import runner


def main() -> int:
    par = argparse.ArgumentParser(prog="vcheck")
    par.add_argument("prop")
    par.add_argument("--tier", default=os.environ.get("VERIF_TIER") or "quick", choices=["quick", "thorough"])
    par.add_argument("--seed", type=int, default=None)
    par.add_argument("--shard", default="")
    par.add_argument("--out", default="")
    par.add_argument("--replay", default="")
    args = par.parse_args()
    seed = args.seed
    if seed is None:
        try:
            seed = int(os.environ.get("VERIF_SEED", "0") or 0)
        except ValueError:
            seed = 0
    if args.replay:
        return runner.main_replay(args.prop, args.replay)
    if args.shard:
        idx, cnt = args.shard.split("/")
        return runner.run_shard(args.prop, args.tier, seed, int(idx), int(cnt), args.out)
    return runner.main_check(args.prop, args.tier, seed)


if __name__ == "__main__":
    sys.exit(main())
