"""setup_cmd: install icontract/deal from the offline wheelhouse into /verif/.deps, run oracle self-tests."""

import sys

from vcheck import runner
from vcheck.oracle import selftest


def main() -> int:
    runner.ensure_deps()
    runner.setup_paths()
    try:
        import icontract  # noqa  pylint: disable=import-outside-toplevel,unused-import
    except ImportError as ex:
        print(f"setup: icontract not importable from {runner.DEPS}: {ex}")
        return 1
    problems = selftest.run(0)
    if problems:
        print("setup: oracle self-test failed:", problems[:3])
        return 1
    runner.import_repo()
    print("setup ok: icontract importable, oracle self-tests passed, cisco_acl imported from", runner.REPO)
    return 0


if __name__ == "__main__":
    sys.exit(main())
