"""Taps: wrap methods, properties and module functions of the real classes from the harness.

Every call site is observed, including the calls the library makes internally. A tap never raises
into the code under observation: monitor errors are recorded in TAP_ERRORS and surfaced by the
check as harness errors.
"""

from __future__ import annotations

import functools
import sys
import traceback

_UNDO = []
TAP_ERRORS = []
CALLS = {}


def _note_error():
    if len(TAP_ERRORS) < 20:
        TAP_ERRORS.append(traceback.format_exc()[-1500:])


def tap_method(cls, name: str, post, pre=None) -> None:
    """Wrap cls.name. pre(self, args, kwargs) -> token; post(self, args, kwargs, result, exc, token)."""
    orig = cls.__dict__[name]
    key = f"{cls.__name__}.{name}"

    @functools.wraps(orig)
    def wrapper(self, *args, **kwargs):
        CALLS[key] = CALLS.get(key, 0) + 1
        token = None
        if pre is not None:
            try:
                token = pre(self, args, kwargs)
            except Exception:  # pylint: disable=broad-except
                _note_error()
        try:
            result = orig(self, *args, **kwargs)
        except BaseException as exc:
            try:
                post(self, args, kwargs, None, exc, token)
            except Exception:  # pylint: disable=broad-except
                _note_error()
            raise
        try:
            post(self, args, kwargs, result, None, token)
        except Exception:  # pylint: disable=broad-except
            _note_error()
        return result

    setattr(cls, name, wrapper)
    _UNDO.append((cls, name, orig))


def tap_property(cls, name: str, on_get=None, on_set=None, pre_set=None) -> None:
    """Wrap a property defined on cls. on_get(self, value); on_set(self, value, exc, token)."""
    orig = cls.__dict__[name]
    key = f"{cls.__name__}.{name}"

    def getter(self):
        value = orig.fget(self)
        if on_get is not None:
            CALLS[key + ".get"] = CALLS.get(key + ".get", 0) + 1
            try:
                on_get(self, value)
            except Exception:  # pylint: disable=broad-except
                _note_error()
        return value

    def setter(self, value):
        CALLS[key + ".set"] = CALLS.get(key + ".set", 0) + 1
        token = None
        if pre_set is not None:
            try:
                token = pre_set(self, value)
            except Exception:  # pylint: disable=broad-except
                _note_error()
        try:
            orig.fset(self, value)
        except BaseException as exc:
            if on_set is not None:
                try:
                    on_set(self, value, exc, token)
                except Exception:  # pylint: disable=broad-except
                    _note_error()
            raise
        if on_set is not None:
            try:
                on_set(self, value, None, token)
            except Exception:  # pylint: disable=broad-except
                _note_error()

    prop = property(getter, setter if orig.fset is not None else None, orig.fdel, orig.__doc__)
    setattr(cls, name, prop)
    _UNDO.append((cls, name, orig))


def tap_function(module, name: str, post, pre=None) -> None:
    """Wrap module.name in the module and in every loaded cisco_acl module that bound it by name."""
    orig = getattr(module, name)
    key = f"{module.__name__.split('.')[-1]}.{name}"

    @functools.wraps(orig)
    def wrapper(*args, **kwargs):
        CALLS[key] = CALLS.get(key, 0) + 1
        token = None
        if pre is not None:
            try:
                token = pre(args, kwargs)
            except Exception:  # pylint: disable=broad-except
                _note_error()
        try:
            result = orig(*args, **kwargs)
        except BaseException as exc:
            try:
                post(args, kwargs, None, exc, token)
            except Exception:  # pylint: disable=broad-except
                _note_error()
            raise
        try:
            post(args, kwargs, result, None, token)
        except Exception:  # pylint: disable=broad-except
            _note_error()
        return result

    for mod_name, mod in list(sys.modules.items()):
        if mod is None or not mod_name.startswith("cisco_acl"):
            continue
        if getattr(mod, name, None) is orig:
            setattr(mod, name, wrapper)
            _UNDO.append((mod, name, orig))


def replace_function(module, name: str, new) -> None:
    """Replace module.name by `new` (e.g. an icontract-decorated version) wherever it is bound."""
    orig = getattr(module, name)
    for mod_name, mod in list(sys.modules.items()):
        if mod is None or not mod_name.startswith("cisco_acl"):
            continue
        if getattr(mod, name, None) is orig:
            setattr(mod, name, new)
            _UNDO.append((mod, name, orig))


def untap_all() -> None:
    while _UNDO:
        owner, name, orig = _UNDO.pop()
        setattr(owner, name, orig)
