"""Interval algebra on port / protocol numbers and an independent range-string codec.

An IntervalSet is a tuple of (lo, hi) pairs: sorted, disjoint, non-adjacent, inclusive.
"""

from __future__ import annotations

PMIN, PMAX = 1, 65535


def norm(pairs) -> tuple:
    items = sorted((lo, hi) for lo, hi in pairs if lo <= hi)
    out = []
    for lo, hi in items:
        if out and lo <= out[-1][1] + 1:
            if hi > out[-1][1]:
                out[-1] = (out[-1][0], hi)
        else:
            out.append((lo, hi))
    return tuple(out)


def from_ints(ints) -> tuple:
    return norm((i, i) for i in ints)


def clip(s: tuple, lo: int = PMIN, hi: int = PMAX) -> tuple:
    return norm((max(a, lo), min(b, hi)) for a, b in s)


def complement(s: tuple, lo: int = PMIN, hi: int = PMAX) -> tuple:
    out = []
    cur = lo
    for a, b in clip(s, lo, hi):
        if a > cur:
            out.append((cur, a - 1))
        cur = b + 1
    if cur <= hi:
        out.append((cur, hi))
    return tuple(out)


def union(a: tuple, b: tuple) -> tuple:
    return norm(list(a) + list(b))


def intersect(a: tuple, b: tuple) -> tuple:
    out = []
    i = j = 0
    while i < len(a) and j < len(b):
        lo = max(a[i][0], b[j][0])
        hi = min(a[i][1], b[j][1])
        if lo <= hi:
            out.append((lo, hi))
        if a[i][1] < b[j][1]:
            i += 1
        else:
            j += 1
    return tuple(out)


def subset(a: tuple, b: tuple) -> bool:
    return intersect(a, b) == a


def size(s: tuple) -> int:
    return sum(hi - lo + 1 for lo, hi in s)


def contains(s: tuple, x: int) -> bool:
    return any(lo <= x <= hi for lo, hi in s)


def to_ints(s: tuple) -> list:
    return [i for lo, hi in s for i in range(lo, hi + 1)]


def from_operator(op: str, operands) -> tuple:
    """Cisco meaning of a port expression inside 1..65535."""
    ops = list(operands)
    if op == "eq":
        return clip(from_ints(ops))
    if op == "neq":
        return complement(from_ints(ops))
    if op == "lt":
        return clip(((PMIN, ops[0] - 1),))
    if op == "gt":
        return clip(((ops[0] + 1, PMAX),))
    if op == "range":
        return clip(((min(ops), max(ops)),))
    raise ValueError(op)


def encode(s: tuple) -> str:
    """Canonical compact string: maximal ascending runs, 'a' or 'a-b', comma separated."""
    return ",".join(str(lo) if lo == hi else f"{lo}-{hi}" for lo, hi in s)


def decode(text: str) -> tuple:
    pairs = []
    for part in text.split(","):
        part = part.strip()
        if not part:
            continue
        if "-" in part:
            lo, hi = part.split("-")
            pairs.append((int(lo), int(hi)))
        else:
            pairs.append((int(part), int(part)))
    return norm(pairs)
