"""Bit algebra on IPv4 (base, wildcard-mask) cubes. Integers only, no ipaddress, no repository code.

A cube (v, w) denotes {a in 0..2^32-1 : a & ~w == v & ~w}; it is kept normalised (v & w == 0).
"""

from __future__ import annotations

ALL = 0xFFFFFFFF


def ip2int(text: str) -> int:
    parts = text.split(".")
    if len(parts) != 4:
        raise ValueError(f"not a dotted quad: {text!r}")
    val = 0
    for part in parts:
        if not (part.isascii() and part.isdigit()):
            raise ValueError(f"not a dotted quad: {text!r}")
        num = int(part)
        if num > 255:
            raise ValueError(f"octet > 255: {text!r}")
        val = (val << 8) | num
    return val


def int2ip(val: int) -> str:
    return ".".join(str((val >> s) & 255) for s in (24, 16, 8, 0))


def cube(v: int, w: int) -> tuple:
    return (v & ~w & ALL, w & ALL)


def prefix_cube(v: int, length: int) -> tuple:
    w = (1 << (32 - length)) - 1
    return cube(v, w)


def popcount(x: int) -> int:
    return bin(x).count("1")


def trailing_ones(w: int) -> int:
    n = 0
    while w & 1:
        n += 1
        w >>= 1
    return n


def is_contiguous(w: int) -> bool:
    """True when w is 0...01...1 (a host mask)."""
    return (w & (w + 1)) == 0


def size(c: tuple) -> int:
    return 1 << popcount(c[1])


def member(c: tuple, a: int) -> bool:
    return (a ^ c[0]) & ~c[1] & ALL == 0


def subset(a: tuple, b: tuple) -> bool:
    """a is a subset of b."""
    return (a[1] & ~b[1] & ALL) == 0 and ((a[0] ^ b[0]) & ~b[1] & ALL) == 0


def intersect(a: tuple, b: tuple):
    if (a[0] ^ b[0]) & ~a[1] & ~b[1] & ALL:
        return None
    w = a[1] & b[1]
    return ((a[0] | b[0]) & ~w & ALL, w)


def subtract(a: tuple, b: tuple) -> list:
    """a minus b as a list of pairwise disjoint cubes."""
    if intersect(a, b) is None:
        return [a]
    out = []
    v, w = a
    bit = 1 << 31
    while bit:
        if (w & bit) and not b[1] & bit:  # free in (the rest of) a, fixed in b: split on it
            bval = b[0] & bit
            pw = w & ~bit
            pv = (v & ~bit) | (bit ^ bval)  # this bit opposite to b
            out.append((pv & ~pw & ALL, pw))
            v = (v & ~bit) | bval  # continue with the half that agrees with b
            w = pw
        bit >>= 1
    return out


def union_subset(left: list, right: list) -> bool:
    """Union of `left` cubes is inside the union of `right` cubes (exact)."""
    for a in left:
        pieces = [a]
        for b in right:
            nxt = []
            for p in pieces:
                nxt.extend(subtract(p, b))
            pieces = nxt
            if not pieces:
                break
        if pieces:
            return False
    return True


def union_witness(left: list, right: list):
    """An address of union(left) outside union(right), or None."""
    for a in left:
        pieces = [a]
        for b in right:
            nxt = []
            for p in pieces:
                nxt.extend(subtract(p, b))
            pieces = nxt
            if not pieces:
                break
        if pieces:
            return pieces[0][0]
    return None


def union_equal(left: list, right: list) -> bool:
    return union_subset(left, right) and union_subset(right, left)


def union_size(cubes: list) -> int:
    """Number of addresses in the union (exact, by disjoint decomposition)."""
    total = 0
    done = []
    for c in cubes:
        pieces = [c]
        for d in done:
            nxt = []
            for p in pieces:
                nxt.extend(subtract(p, d))
            pieces = nxt
            if not pieces:
                break
        total += sum(size(p) for p in pieces)
        done.append(c)
    return total


def expansion(c: tuple):
    """Oracle for 'wildcard -> prefixes': (prefixlen, k, set of network ints).

    k = number of wildcard bits above the trailing run of ones; 2^k networks of equal length.
    """
    v, w = c
    t = trailing_ones(w)
    high = [i for i in range(t, 32) if (w >> i) & 1]
    k = len(high)
    nets = set()
    for j in range(1 << k):
        val = v
        for n, pos in enumerate(high):
            if (j >> n) & 1:
                val |= 1 << pos
        nets.add(val)
    return 32 - t, k, nets


def ncwb_count(w: int) -> int:
    return popcount(w) - trailing_ones(w)


def cube_text(c: tuple) -> str:
    return f"{int2ip(c[0])} {int2ip(c[1])}"
