"""Oracle self-validation against brute force on reduced universes (< 1 s).

A failure makes a check INCONCLUSIVE (exit 2), never a violation.
"""

from __future__ import annotations

import random

from vcheck.oracle import bits, intervals, packets, reader, names


def _members6(c):
    return {a for a in range(64) if bits.member(c, a)}


def run(seed: int = 0) -> list:
    rng = random.Random(seed + 17)
    bad = []

    # cubes over a 6-bit universe
    for _ in range(1500):
        a = bits.cube(rng.randrange(64), rng.randrange(64))
        b = bits.cube(rng.randrange(64), rng.randrange(64))
        sa, sb = _members6(a), _members6(b)
        if bits.subset(a, b) != (sa <= sb):
            bad.append(("subset", a, b))
        inter = bits.intersect(a, b)
        if (_members6(inter) if inter else set()) != (sa & sb):
            bad.append(("intersect", a, b))
        diff = bits.subtract(a, b)
        got = set()
        total = 0
        for piece in diff:
            mem = _members6(piece)
            total += len(mem)
            got |= mem
        if got != (sa - sb) or total != len(got):
            bad.append(("subtract", a, b))
    for _ in range(400):
        left = [bits.cube(rng.randrange(64), rng.randrange(64)) for _ in range(rng.randint(1, 4))]
        right = [bits.cube(rng.randrange(64), rng.randrange(64)) for _ in range(rng.randint(1, 4))]
        sl = set().union(*[_members6(c) for c in left])
        sr = set().union(*[_members6(c) for c in right])
        if bits.union_subset(left, right) != (sl <= sr):
            bad.append(("union_subset", left, right))
        wit = bits.union_witness(left, right)
        if (wit is None) != (sl <= sr) or (wit is not None and (wit not in sl or wit in sr)):
            bad.append(("union_witness", left, right))
        if bits.union_size(left) != len(sl):
            bad.append(("union_size", left))

    # expansion: 2^k equal-length prefixes covering exactly the cube (10-bit universe trick:
    # verify by membership on sampled addresses and by total size)
    for _ in range(300):
        w = rng.getrandbits(32) & rng.getrandbits(32) & rng.getrandbits(32) if rng.random() < 0.7 else (1 << rng.randint(0, 32)) - 1
        if bits.popcount(w) > 12:
            continue
        c = bits.cube(rng.getrandbits(32), w)
        plen, k, nets = bits.expansion(c)
        if len(nets) != 1 << k or (1 << k) * (1 << (32 - plen)) != bits.size(c):
            bad.append(("expansion-size", c))
        hostmask = (1 << (32 - plen)) - 1
        for net in nets:
            if net & hostmask or not bits.member(c, net) or not bits.member(c, net | hostmask):
                bad.append(("expansion-net", c, net))
        for _ in range(5):
            a = (c[0] | (rng.getrandbits(32) & c[1]))
            if (a & ~hostmask & bits.ALL) not in nets:
                bad.append(("expansion-cover", c, a))

    # intervals on 1..40
    for _ in range(1500):
        sa = {rng.randint(1, 40) for _ in range(rng.randint(0, 12))}
        sb = {rng.randint(1, 40) for _ in range(rng.randint(0, 12))}
        ia, ib = intervals.from_ints(sa), intervals.from_ints(sb)
        if set(intervals.to_ints(ia)) != sa:
            bad.append(("from_ints", sa))
        if set(intervals.to_ints(intervals.union(ia, ib))) != sa | sb:
            bad.append(("union", sa, sb))
        if set(intervals.to_ints(intervals.intersect(ia, ib))) != sa & sb:
            bad.append(("intersect", sa, sb))
        if intervals.subset(ia, ib) != (sa <= sb):
            bad.append(("isubset", sa, sb))
        if set(intervals.to_ints(intervals.complement(ia, 1, 40))) != set(range(1, 41)) - sa:
            bad.append(("complement", sa))
        if intervals.decode(intervals.encode(ia)) != ia or intervals.size(ia) != len(sa):
            bad.append(("codec", sa))
    for op, ops, want in [
        ("eq", [5, 7], {5, 7}), ("lt", [3], {1, 2}), ("lt", [1], set()), ("gt", [65533], {65534, 65535}),
        ("gt", [65535], set()), ("range", [9, 7], {7, 8, 9}), ("range", [4, 4], {4}),
    ]:
        if set(intervals.to_ints(intervals.from_operator(op, ops))) != want:
            bad.append(("from_operator", op, ops))
    if intervals.size(intervals.from_operator("neq", [1, 65535])) != 65533:
        bad.append(("neq",))
    if intervals.encode(intervals.from_ints([1, 3, 4, 5, 9])) != "1,3-5,9":
        bad.append(("encode",))

    # reader on a few fixed lines
    sem = reader.read_ace("10 permit tcp host 10.0.0.1 eq 179 10.0.0.0 0.0.0.3 eq www 443 ack log")
    want = ("permit", 6, ("cube", bits.ip2int("10.0.0.1"), 0), ((179, 179),), ("cube", bits.ip2int("10.0.0.0"), 3),
            ((80, 80), (443, 443)), ("ack",), 10, ("log",))
    if reader.meaning_full(sem) != want:
        bad.append(("reader", reader.meaning_full(sem)))
    sem = reader.read_ace("deny 47 10.1.2.3/24 addrgroup G", "extended")
    if reader.meaning(sem) != ("deny", 47, ("cube", bits.ip2int("10.1.2.0"), 255), None, ("group", "G"), None, ()):
        bad.append(("reader2", reader.meaning(sem)))
    sem = reader.read_ace("permit 1.2.3.4 log", "standard")
    if reader.meaning(sem)[2] != ("cube", bits.ip2int("1.2.3.4"), 0):
        bad.append(("reader3",))

    # product containment vs brute force in a tiny world
    def rnd_meaning():
        def cubes():
            return [bits.cube(rng.randrange(16), rng.randrange(16)) for _ in range(rng.randint(1, 2))]

        def ports():
            if rng.random() < 0.4:
                return None
            return intervals.from_ints({rng.randint(1, 5) for _ in range(rng.randint(0, 3))})

        proto = rng.choice([0, 6, 17, 1])
        has_ports = proto in (6, 17)
        return {
            "action": "permit", "proto": proto, "src": cubes(), "dst": cubes(),
            "sport": ports() if has_ports else None, "dport": ports() if has_ports else None,
            "flags": frozenset(rng.sample(["ack", "syn", "fin"], rng.randint(0, 2))) if proto == 6 else frozenset(),
        }

    flagsets = [frozenset(), frozenset(["ack"]), frozenset(["syn"]), frozenset(["fin"]), frozenset(["ack", "syn"]),
                frozenset(["ack", "syn", "fin"])]
    world = [(p, s, sp, d, dp, f) for p in (6, 17, 1, 2) for s in range(0, 16, 3) for sp in (1, 3, 5, 700)
             for d in range(0, 16, 5) for dp in (1, 2, 4, 5, 700) for f in (flagsets if p == 6 else [frozenset()])]
    for _ in range(120):
        b, t = rnd_meaning(), rnd_meaning()
        brute = all(packets.matches(t, pkt) for pkt in world if packets.matches(b, pkt))
        if packets.contained(b, t) and not brute:
            bad.append(("contained-unsound", b, t))
    if names.TCP["www"] != 80 or names.UDP["syslog"] != 514 or names.PROTO["ospf"] != 89:
        bad.append(("names",))
    return bad


if __name__ == "__main__":
    import time

    t0 = time.time()
    out = run(0)
    print("selftest problems:", out[:5], "in", round(time.time() - t0, 2), "s")
