"""Packet semantics of ACEs and ACLs: matching, exact containment, first-match evaluation.

An ACE meaning is built from reader semantics plus the member cubes of referenced address groups:
    {"action", "proto", "src": [cubes], "sport": IntervalSet|None, "dst": [cubes],
     "dport": IntervalSet|None, "flags": frozenset}
Ports live in 1..65535 (C08); an absent port expression means 'any port'. Flag list F: F = {} matches
every packet, otherwise a TCP packet with flag set P matches iff P & F (legacy any-of list, pinned
by tests/test__ace.py).
"""

from __future__ import annotations

from vcheck.oracle import bits, intervals

FULL_PORTS = ((intervals.PMIN, intervals.PMAX),)


def ace_meaning(sem: dict, members: dict | None = None) -> dict:
    """reader semantics -> packet-set description. members: {group name: [cubes]}."""
    members = members or {}

    def cubes(addr):
        if addr[0] == "cube":
            return [(addr[1], addr[2])]
        return list(members.get(addr[1], []))

    return {
        "action": sem["action"],
        "proto": sem["proto"],
        "src": cubes(sem["src"]),
        "sport": sem["sport"][2] if sem["sport"] else None,
        "dst": cubes(sem["dst"]),
        "dport": sem["dport"][2] if sem["dport"] else None,
        "flags": frozenset(sem["flags"]),
    }


def is_empty(m: dict) -> bool:
    if not m["src"] or not m["dst"]:
        return True
    if m["sport"] is not None and not m["sport"]:
        return True
    if m["dport"] is not None and not m["dport"]:
        return True
    return False


def _ports_subset(b, t) -> bool:
    if t is None:
        return True
    if b is None:
        return intervals.subset(FULL_PORTS, t)
    return intervals.subset(b, t)


def contained(b: dict, t: dict) -> bool:
    """Every packet matched by b is matched by t (exact; product sets)."""
    if is_empty(b):
        return True
    if not (t["proto"] == 0 or t["proto"] == b["proto"]):
        return False
    if not bits.union_subset(b["src"], t["src"]):
        return False
    if not bits.union_subset(b["dst"], t["dst"]):
        return False
    if not _ports_subset(b["sport"], t["sport"]):
        return False
    if not _ports_subset(b["dport"], t["dport"]):
        return False
    if t["flags"]:
        if not b["flags"] or not b["flags"] <= t["flags"]:
            return False
    return True


def matches(m: dict, pkt: tuple) -> bool:
    """pkt = (proto, src, sport, dst, dport, flags frozenset)."""
    proto, src, sport, dst, dport, flags = pkt
    if m["proto"] != 0 and m["proto"] != proto:
        return False
    if not any(bits.member(c, src) for c in m["src"]):
        return False
    if not any(bits.member(c, dst) for c in m["dst"]):
        return False
    if m["sport"] is not None and not intervals.contains(m["sport"], sport):
        return False
    if m["dport"] is not None and not intervals.contains(m["dport"], dport):
        return False
    if m["flags"] and not m["flags"] & flags:
        return False
    return True


def decide(rules: list, pkt: tuple) -> str:
    """First match; implicit deny."""
    for m in rules:
        if matches(m, pkt):
            return m["action"]
    return "deny"


def decide_idx(rules: list, pkt: tuple) -> int:
    for idx, m in enumerate(rules):
        if matches(m, pkt):
            return idx
    return -1
