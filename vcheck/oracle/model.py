"""Executable reference model of ACL operations (C17): the ordered rule list and its block structure.

State:
  cfg  = {platform, port_nr, protocol_nr, group_by}
  top  = list of elements; an element is an item dict or {"block": [items], "name": heading}
  item = {"kind": "remark"|"ace", "seq": int, ...}; ace items carry "m" = meaning tuple
         (action, proto, src, sport, dst, dport, flags) with src/dst = ("cube", v, w) or
         ("group", name, (member cubes...)); sport/dport = (operator, operands) or None; "logs".
Only meanings are modelled, never spelling.
"""

from __future__ import annotations

import copy as _copy

from vcheck.oracle import intervals

REGROUPING = {"port_nr", "protocol_nr", "copy", "data", "reparse", "ungroup_ports", "group", "platform->nxos"}


def flatten(top: list) -> list:
    out = []
    for el in top:
        if "block" in el:
            out.extend(el["block"])
        else:
            out.append(el)
    return out


def regroup(flat: list, group_by: str) -> list:
    """Reference model of Acl.group: buckets by heading text in order of first appearance."""
    if not group_by:
        return list(flat)
    buckets = {"": []}
    name = ""
    for item in flat:
        if item["kind"] == "remark" and item["text"].startswith(group_by):
            name = item["text"]
            if name not in buckets:
                buckets[name] = [item]
            continue
        buckets[name].append(item)
    return [{"block": items, "name": name} for name, items in buckets.items() if items]


def _port_set(port):
    return None if port is None else intervals.from_operator(port[0], list(port[1]))


def item_key(item: dict) -> tuple:
    """What an observer can read from rendered text + members: the comparison key of an item."""
    if item["kind"] == "remark":
        return ("remark", item["seq"], item["text"])
    act, proto, src, sport, dst, dport, flags = item["m"]
    return ("ace", item["seq"], act, proto, src, _port_set(sport), dst, _port_set(dport), tuple(sorted(flags)),
            tuple(sorted(item["logs"])))


def structure_key(top: list) -> list:
    return [[item_key(i) for i in el["block"]] if "block" in el else item_key(el) for el in top]


def split_ports(item: dict) -> list:
    """IOS multi-port eq entry -> adjacent single-port entries (source ports outer, destination inner, ascending)."""
    if item["kind"] != "ace":
        return [item]
    act, proto, src, sport, dst, dport, flags = item["m"]
    s_list = sorted(sport[1]) if sport and sport[0] in ("eq", "neq") and len(sport[1]) > 1 else None
    d_list = sorted(dport[1]) if dport and dport[0] in ("eq", "neq") and len(dport[1]) > 1 else None
    if not s_list and not d_list:
        return [item]
    out = []
    for sval in (s_list or [None]):
        for dval in (d_list or [None]):
            new = dict(item)
            new["m"] = (act, proto, src, (sport[0], (sval,)) if s_list else sport, dst,
                        (dport[0], (dval,)) if d_list else dport, flags)
            out.append(new)
    return out


class Model:
    def __init__(self, cfg: dict, flat: list):
        self.cfg = dict(cfg)
        self.top = regroup(flat, cfg.get("group_by", ""))

    def clone(self):
        return _copy.deepcopy(self)

    # ---- helpers
    def _regroup(self):
        # the ACL regroups itself only while a group_by prefix is active; without one, blocks (hand-made groups) stay as they are
        if self.cfg["group_by"]:
            self.top = regroup(flatten(self.top), self.cfg["group_by"])

    def _map_items(self, func):
        new_top = []
        for el in self.top:
            if "block" in el:
                items = []
                for item in el["block"]:
                    items.extend(func(item))
                new_top.append({"block": items, "name": el["name"]})
            else:
                new_top.extend(func(el))
        self.top = new_top

    # ---- operations; each returns an expectation tag: "exact" | "perm" (some permutation of intact blocks)
    def platform(self, target: str):
        if target == "nxos" and self.cfg["platform"] != "nxos":
            self._map_items(split_ports)
            self._regroup()
        self.cfg["platform"] = target
        return "exact"

    def switch(self, name: str):
        self.cfg[name] = not self.cfg[name]
        self._regroup()
        return "exact"

    def resequence(self, start: int, step: int):
        seq = start
        flat = flatten(self.top)
        for n, item in enumerate(flat):
            item["seq"] = seq if start else 0
            if n < len(flat) - 1:
                seq += step if start else 0
        return "exact"

    def group(self, prefix: str):
        self.cfg["group_by"] = prefix
        self._regroup()
        return "exact"

    def ungroup(self):
        self.cfg["group_by"] = ""
        self.top = flatten(self.top)
        return "exact"

    def ideal_keys(self) -> list:
        return [el["block"][-1]["seq"] if "block" in el else el["seq"] for el in self.top]

    def sort(self, live_keys: list):
        ideal = self.ideal_keys()
        exact = len(set(ideal)) == len(ideal) and all(k > 0 for k in ideal)
        if exact:
            order = sorted(range(len(self.top)), key=lambda i: ideal[i])
            self.top = [self.top[i] for i in order]
            return "exact" if list(live_keys) == ideal else "exact-stale-block-sequence"
        return "perm"

    def reverse(self):
        self.top.reverse()
        return "exact"

    def insert(self, idx: int, item: dict):
        self.top.insert(idx, item)
        return "exact"

    def append(self, item: dict):
        self.top.append(item)
        return "exact"

    def pop(self):
        if not self.top:
            return "raise:IndexError"
        self.top.pop()
        return "exact"

    def rebuild(self, drop_members: bool = False):
        if drop_members:
            def strip(item):
                if item["kind"] != "ace":
                    return [item]
                act, proto, src, sport, dst, dport, flags = item["m"]
                src = ("group", src[1], ()) if src[0] == "group" else src
                dst = ("group", dst[1], ()) if dst[0] == "group" else dst
                new = dict(item)
                new["m"] = (act, proto, src, sport, dst, dport, flags)
                return [new]
            self._map_items(strip)
            if not self.cfg["group_by"]:
                self.top = flatten(self.top)  # a re-parse of the text knows nothing about hand-made blocks
        self._regroup()
        return "exact"

    def ungroup_ports(self):
        self._map_items(split_ports)
        self._regroup()
        return "exact"

    def delete(self, removed_flat_idx: set):
        flat = [i for n, i in enumerate(flatten(self.top)) if n not in removed_flat_idx]
        if removed_flat_idx:
            self.top = regroup(flat, self.cfg["group_by"]) if self.cfg["group_by"] else flat
        return "exact"

    def digest(self) -> str:
        return repr((sorted(self.cfg.items()), structure_key(self.top)))
