"""Independent reader of Cisco IOS / NX-OS ACE, remark, ACL and address-group text.

A hand-written token walk: shares no regular expression and no table with cisco_acl. Numbers of
names come from oracle/names.py. Everything is returned as plain tuples/dicts of ints and strings.
"""

from __future__ import annotations

from vcheck.oracle import bits, intervals, names

ANY = ("cube", 0, bits.ALL)


class ReadError(ValueError):
    """The text is outside the grammar this reader understands."""


def _is_quad(tok: str) -> bool:
    try:
        bits.ip2int(tok)
    except ValueError:
        return False
    return True


def read_addr(toks: list, i: int, standard: bool = False):
    """Read an ACE address at toks[i]; return (sem, next_i, form)."""
    if i >= len(toks):
        raise ReadError("address expected at end of line")
    tok = toks[i]
    if tok == "any":
        return ANY, i + 1, "any"
    if tok == "host":
        if i + 1 >= len(toks) or not _is_quad(toks[i + 1]):
            raise ReadError("host needs an address")
        return ("cube", bits.ip2int(toks[i + 1]), 0), i + 2, "host"
    if tok in ("object-group", "addrgroup"):
        if i + 1 >= len(toks):
            raise ReadError("group name expected")
        return ("group", toks[i + 1]), i + 2, tok
    if "/" in tok:
        ip_s, len_s = tok.split("/", 1)
        if not (_is_quad(ip_s) and len_s.isascii() and len_s.isdigit() and int(len_s) <= 32):
            raise ReadError(f"bad prefix {tok!r}")
        v, w = bits.prefix_cube(bits.ip2int(ip_s), int(len_s))
        return ("cube", v, w), i + 1, "prefix"
    if _is_quad(tok):
        if i + 1 < len(toks) and _is_quad(toks[i + 1]):
            v, w = bits.cube(bits.ip2int(tok), bits.ip2int(toks[i + 1]))
            return ("cube", v, w), i + 2, "wildcard"
        if standard:
            return ("cube", bits.ip2int(tok), 0), i + 1, "bare-host"
    raise ReadError(f"address expected, got {tok!r}")


def read_port(toks: list, i: int, proto: int):
    """Read an optional port expression; return (None | (op, operands, set), next_i)."""
    if i >= len(toks) or toks[i] not in names.OPERATORS:
        return None, i
    op = toks[i]
    pname = {6: "tcp", 17: "udp"}.get(proto)
    if pname is None:
        raise ReadError(f"port operator {op!r} with protocol {proto}")
    i += 1
    operands = []
    want = {"lt": 1, "gt": 1, "range": 2}.get(op, 99)
    while i < len(toks) and len(operands) < want:
        num = names.port_number(pname, toks[i])
        if num is None:
            break
        operands.append(num)
        i += 1
    if not operands or (want != 99 and len(operands) != want):
        raise ReadError(f"operator {op!r} with operands {operands}")
    return (op, tuple(operands), intervals.from_operator(op, operands)), i


def read_ace(line: str, acl_type: str = "extended") -> dict:
    """Read one permit/deny line."""
    toks = line.split()
    if not toks:
        raise ReadError("empty line")
    i = 0
    seq = 0
    if toks[0].isascii() and toks[0].isdigit():
        seq = int(toks[0])
        i = 1
    if i >= len(toks) or toks[i] not in ("permit", "deny"):
        raise ReadError("action expected")
    action = toks[i]
    i += 1
    forms = {}
    if acl_type == "extended":
        if i >= len(toks):
            raise ReadError("protocol expected")
        proto = names.proto_number(toks[i])
        if proto is None or not 0 <= proto <= 255:
            raise ReadError(f"unknown protocol {toks[i]!r}")
        forms["proto"] = "nr" if toks[i].isdigit() else "name"
        i += 1
        src, i, forms["src"] = read_addr(toks, i)
        sport, i = read_port(toks, i, proto)
        dst, i, forms["dst"] = read_addr(toks, i)
        dport, i = read_port(toks, i, proto)
    else:
        proto = 0
        src, i, forms["src"] = read_addr(toks, i, standard=True)
        sport = dport = None
        dst = ANY
        forms["dst"] = "none"
    opts = toks[i:]
    logs = tuple(t for t in opts if t in names.LOG_WORDS)
    flags = tuple(t for t in opts if t not in names.LOG_WORDS)
    return {
        "kind": "ace", "type": acl_type, "seq": seq, "action": action, "proto": proto,
        "src": src, "sport": sport, "dst": dst, "dport": dport,
        "flags": flags, "logs": logs, "forms": forms, "opts": tuple(opts),
    }


def read_remark(line: str) -> dict:
    toks = line.split()
    i = 0
    seq = 0
    if toks and toks[0].isascii() and toks[0].isdigit():
        seq = int(toks[0])
        i = 1
    if i >= len(toks) or toks[i] != "remark":
        raise ReadError("remark expected")
    text = " ".join(toks[i + 1:])
    if not text:
        raise ReadError("remark without text")
    return {"kind": "remark", "seq": seq, "text": text}


def read_item(line: str, acl_type: str = "extended") -> dict:
    toks = line.split()
    idx = 1 if toks and toks[0].isdigit() else 0
    if len(toks) > idx and toks[idx] == "remark":
        return read_remark(line)
    return read_ace(line, acl_type)


def meaning(sem: dict) -> tuple:
    """What decides which packets an ACE matches and with what action (spelling-free)."""
    sport = sem["sport"][2] if sem["sport"] else None
    dport = sem["dport"][2] if sem["dport"] else None
    return (sem["action"], sem["proto"], sem["src"], sport, sem["dst"], dport,
            tuple(sorted(set(sem["flags"]))))


def meaning_full(sem: dict) -> tuple:
    """meaning + sequence + log words (what C01 compares)."""
    return meaning(sem) + (sem["seq"], tuple(sorted(set(sem["logs"]))))


def read_acl(text: str, platform: str) -> dict:
    """Read rendered ACL text: header + body lines -> name, type, items."""
    lines = [ln for ln in (" ".join(s.split()) for s in text.split("\n")) if ln]
    if not lines:
        raise ReadError("empty acl")
    head = lines[0].split()
    if head[:2] != ["ip", "access-list"]:
        raise ReadError(f"bad header {lines[0]!r}")
    rest = head[2:]
    if platform == "ios":
        if len(rest) < 1 or rest[0] not in ("extended", "standard"):
            raise ReadError(f"ios header needs a type: {lines[0]!r}")
        acl_type = rest[0]
        name = " ".join(rest[1:])
    else:
        acl_type = "extended"
        name = " ".join(rest)
    items = [read_item(ln, acl_type) for ln in lines[1:]]
    return {"name": name, "type": acl_type, "items": items, "lines": lines[1:]}


def read_group_member(line: str, platform: str) -> dict:
    """Read one member line of an address group (IOS: subnet masks; NX-OS: wildcards/prefixes)."""
    toks = line.split()
    seq = 0
    if len(toks) > 1 and toks[0].isascii() and toks[0].isdigit() and not _is_quad(toks[0]):
        seq = int(toks[0])
        toks = toks[1:]
    if not toks:
        raise ReadError("empty member")
    if toks[0] == "host" and len(toks) == 2 and _is_quad(toks[1]):
        return {"seq": seq, "addr": ("cube", bits.ip2int(toks[1]), 0), "form": "host"}
    if toks[0] == "group-object" and len(toks) == 2:
        return {"seq": seq, "addr": ("group", toks[1]), "form": "group-object"}
    if len(toks) == 1 and "/" in toks[0]:
        ip_s, len_s = toks[0].split("/", 1)
        if not (_is_quad(ip_s) and len_s.isdigit() and int(len_s) <= 32):
            raise ReadError(f"bad prefix {line!r}")
        v, w = bits.prefix_cube(bits.ip2int(ip_s), int(len_s))
        return {"seq": seq, "addr": ("cube", v, w), "form": "prefix"}
    if len(toks) == 2 and _is_quad(toks[0]) and _is_quad(toks[1]):
        base = bits.ip2int(toks[0])
        mask = bits.ip2int(toks[1])
        if platform == "ios":  # subnet mask
            w = mask ^ bits.ALL
            if not bits.is_contiguous(w):
                raise ReadError(f"non-contiguous subnet mask {line!r}")
            v, w = bits.cube(base, w)
            return {"seq": seq, "addr": ("cube", v, w), "form": "subnet"}
        v, w = bits.cube(base, mask)
        return {"seq": seq, "addr": ("cube", v, w), "form": "wildcard"}
    raise ReadError(f"bad member {line!r}")


def read_addrgroup(text: str, platform: str) -> dict:
    lines = [ln for ln in (" ".join(s.split()) for s in text.split("\n")) if ln]
    if not lines:
        raise ReadError("empty group")
    head = lines[0].split()
    if platform == "ios":
        if head[:2] != ["object-group", "network"] or len(head) != 3:
            raise ReadError(f"bad ios group header {lines[0]!r}")
        name = head[2]
    else:
        if head[:3] != ["object-group", "ip", "address"] or len(head) != 4:
            raise ReadError(f"bad nxos group header {lines[0]!r}")
        name = head[3]
    return {"name": name, "members": [read_group_member(ln, platform) for ln in lines[1:]]}


# --------------------------------------------------------------- target grammar validator


def validate_ace_line(line: str, platform: str, acl_type: str, port_vocab, proto_vocab) -> list:
    """Problems that make `line` invalid syntax on `platform` (empty list = valid).

    port_vocab(proto_name) -> set of port names the platform/version knows;
    proto_vocab -> set of protocol names the platform knows.
    """
    problems = []
    try:
        sem = read_ace(line, acl_type)
    except ReadError as ex:
        return [f"unreadable: {ex}"]
    toks = line.split()
    for side in ("src", "dst"):
        form = sem["forms"].get(side)
        if form == "prefix" and platform == "ios":
            problems.append(f"{side}: prefix notation is not IOS syntax")
        if form == "object-group" and platform == "nxos":
            problems.append(f"{side}: object-group is not NX-OS ACE syntax")
        if form == "addrgroup" and platform == "ios":
            problems.append(f"{side}: addrgroup is not IOS syntax")
    pname = {6: "tcp", 17: "udp"}.get(sem["proto"])
    for side in ("sport", "dport"):
        port = sem[side]
        if not port:
            continue
        if platform == "nxos" and port[0] in ("eq", "neq") and len(port[1]) != 1:
            problems.append(f"{side}: NX-OS takes exactly one port with {port[0]}")
    # names used must be known to the platform
    if acl_type == "extended":
        idx = 1 if toks[0].isdigit() else 0
        ptok = toks[idx + 1]
        if (sem["sport"] or sem["dport"]) and ptok not in ("tcp", "udp"):
            problems.append(f"port operators after protocol {ptok!r}: the library's own convention (has_port) keeps the tcp/udp keyword")
        if not ptok.isdigit() and ptok not in proto_vocab:
            problems.append(f"protocol name {ptok!r} unknown on {platform}")
        if pname:
            vocab = port_vocab(pname)
            in_port = False
            for tok in toks[idx + 2:]:
                if tok in names.OPERATORS:
                    in_port = True
                    continue
                if in_port:
                    if tok.isdigit():
                        continue
                    if names.port_number(pname, tok) is not None and tok not in names.ADDR_WORDS:
                        if tok not in vocab:
                            problems.append(f"port name {tok!r} unknown on {platform}")
                        continue
                    in_port = False
    return problems
