"""Seeded generators of Cisco ACL text in all accepted spellings, with the intended meaning.

Every generator returns the text together with reader-compatible semantics, so the independent
reader can be cross-checked against the generator (a disagreement is a harness error, not a
violation). Vocabularies (which names a platform/version knows) are taken from the library's public
PortName/Protocol API; numbers come from oracle/names.py.
"""

from __future__ import annotations

from vcheck.oracle import bits, intervals, names

VERSIONS = ["", "0", "15", "15.2(02)SY", "16.09.06", "9.3(8)"]
PLATFORMS = ("ios", "nxos")
OCTETS = (0, 1, 10, 127, 128, 255)

_VOCAB = {}
_PROTO_OUT = {}
_PROTO_IN = {}


def port_vocab(proto: str, platform: str, version: str) -> dict:
    """Names the platform/version knows for tcp/udp -> number by oracle/names.py (unknown ones dropped)."""
    key = (proto, platform, version)
    if key not in _VOCAB:
        from cisco_acl import PortName  # pylint: disable=import-outside-toplevel

        table = PortName(protocol=proto, platform=platform, version=version).names()
        _VOCAB[key] = {n: names.PORT[proto][n] for n in table if n in names.PORT[proto]}
    return _VOCAB[key]


def proto_out_vocab(platform: str) -> set:
    """Protocol names the platform renders."""
    if platform not in _PROTO_OUT:
        from cisco_acl import Protocol  # pylint: disable=import-outside-toplevel

        _PROTO_OUT[platform] = {Protocol(str(n), platform=platform).name for n in range(256)} - {""}
    return _PROTO_OUT[platform]


def proto_in_vocab(platform: str) -> dict:
    """Protocol names the platform's parser accepts -> number by oracle/names.py."""
    if platform not in _PROTO_IN:
        from cisco_acl import Protocol  # pylint: disable=import-outside-toplevel

        acc = {}
        for name, num in names.PROTO.items():
            try:
                Protocol(name, platform=platform)
            except ValueError:
                continue
            acc[name] = num
        _PROTO_IN[platform] = acc
    return _PROTO_IN[platform]


# ------------------------------------------------------------------ addresses


def rand_ip(rng, small=None) -> int:
    if small is not None:
        return small["base"] | rng.randrange(small["size"])
    octs = [rng.choice(OCTETS) if rng.random() < 0.6 else rng.randrange(256) for _ in range(4)]
    return (octs[0] << 24) | (octs[1] << 16) | (octs[2] << 8) | octs[3]


def rand_mask(rng, k: int, trailing: int, lo: int = 0, hi: int = 32) -> int:
    """Wildcard mask: `trailing` low ones and k further ones at positions trailing+1..hi-1."""
    w = (1 << trailing) - 1
    pool = list(range(max(trailing + 1, lo), hi))
    for pos in rng.sample(pool, min(k, len(pool))):
        w |= 1 << pos
    return w


def gen_addr(rng, platform: str, *, allow_group=True, allow_nc=True, max_k=4, foreign=True, small=None,
             kinds=None) -> dict:
    """One ACE address. Returns {"text", "sem", "form", "native", "k"}."""
    kinds = kinds or ["any", "host", "contig", "contig", "nc", "group"]
    kind = rng.choice(kinds)
    if kind == "group" and not allow_group:
        kind = "contig"
    if kind == "nc" and not allow_nc:
        kind = "contig"
    native = True
    k = 0
    if kind == "any":
        sem = ("cube", 0, bits.ALL)
        forms = ["any", "any", "0.0.0.0 255.255.255.255", f"{bits.int2ip(rand_ip(rng))} 255.255.255.255"]
        if platform == "nxos" or foreign:
            forms.append("0.0.0.0/0")
            forms.append(f"{bits.int2ip(rand_ip(rng))}/0")
        text = rng.choice(forms)
        if "/" in text and platform == "ios":
            native = False
    elif kind == "host":
        ip_ = rand_ip(rng, small)
        sem = ("cube", ip_, 0)
        a = bits.int2ip(ip_)
        forms = [f"host {a}", f"{a} 0.0.0.0"]
        if platform == "nxos":
            forms += [f"{a}/32", f"{a}/32"]
        elif foreign:
            forms.append(f"{a}/32")
        text = rng.choice(forms)
        if platform == "ios" and "/" in text:
            native = False
    elif kind == "contig":
        if small is not None:
            t = rng.randint(1, small["bits"])
        else:
            t = rng.choice([1, 2, 3, 4, 8, 12, 16, 20, 24, 28, 30, 31]) if rng.random() < 0.7 else rng.randint(1, 31)
        w = (1 << t) - 1
        base = rand_ip(rng, small)
        dirty = rng.random() < 0.3
        shown = base if dirty else base & ~w & bits.ALL
        sem = ("cube",) + bits.cube(base, w)
        use_prefix = (platform == "nxos" and rng.random() < 0.6) or (platform == "ios" and foreign and rng.random() < 0.15)
        if use_prefix:
            text = f"{bits.int2ip(shown)}/{32 - t}"
            native = platform == "nxos"
        else:
            text = f"{bits.int2ip(shown)} {bits.int2ip(w)}"
    elif kind == "nc":
        k = rng.randint(1, max_k)
        if small is not None:
            t = rng.randint(0, max(0, small["bits"] - 2))
            w = rand_mask(rng, min(k, small["bits"] - t - 1), t, hi=small["bits"])
            if bits.is_contiguous(w):
                w |= 1 << (small["bits"] - 1)
                if bits.is_contiguous(w):
                    w = 0b101
        else:
            t = rng.randint(0, 8)
            w = rand_mask(rng, k, t)
        k = bits.ncwb_count(w)
        base = rand_ip(rng, small)
        dirty = rng.random() < 0.3
        shown = base if dirty else base & ~w & bits.ALL
        sem = ("cube",) + bits.cube(base, w)
        text = f"{bits.int2ip(shown)} {bits.int2ip(w)}"
    else:
        # (names that merely *contain* a keyword are names like any other)
        name = rng.choice(["G1", "G2", "NET-A", "grp_3", "WEB.SRV", "A1", "dmz-addrgroup", "my-object-group-1", "anyhost", "hostnet"])
        sem = ("group", name)
        text = ("object-group " if platform == "ios" else "addrgroup ") + name
    return {"text": text, "sem": sem, "form": kind, "native": native, "k": k}


# ------------------------------------------------------------------ ports


def rand_port(rng, table: dict | None = None, small=None) -> int:
    if small is not None:
        return rng.randint(1, small["ports"])
    roll = rng.random()
    if roll < 0.25:
        return rng.choice([1, 2, 65534, 65535, 1, 65535, 1023, 1024, 49151, 49152])
    if roll < 0.5 and table:
        return max(1, min(65535, rng.choice(list(table.values())) + rng.choice([-1, 0, 0, 1])))
    if roll < 0.75:
        return rng.randint(1, 1024)
    return rng.randint(1, 65535)


def gen_port(rng, proto: str, platform: str, version: str, *, ops=None, small=None, allow_empty=True,
             max_operands=10, names_ok=True) -> dict:
    """One port expression. Returns {"text", "sem": (op, operands, set), "multi": bool}."""
    table = port_vocab(proto, platform, version)
    op = rng.choice(ops or ["eq", "eq", "neq", "lt", "gt", "range"])
    if op in ("eq", "neq"):
        cnt = 1
        if platform == "ios" and max_operands >= 2 and rng.random() < 0.4:
            cnt = rng.randint(2, max_operands)
        operands = []
        while len(operands) < cnt:
            val = rand_port(rng, table, small)
            if val not in operands:
                operands.append(val)
            elif small is not None and len(operands) >= small["ports"]:
                break
    elif op in ("lt", "gt"):
        val = rand_port(rng, table, small)
        if allow_empty and rng.random() < 0.08:
            val = 1 if op == "lt" else 65535
        operands = [val]
    else:
        a, b = rand_port(rng, table, small), rand_port(rng, table, small)
        if rng.random() < 0.1:
            b = a
        operands = [a, b]
    by_nr = {}
    for name, num in table.items():
        by_nr.setdefault(num, []).append(name)
    toks = []
    for val in operands:
        if names_ok and val in by_nr and rng.random() < 0.6:
            toks.append(rng.choice(by_nr[val]))
        else:
            toks.append(str(val))
    text = f"{op} " + " ".join(toks)
    return {"text": text, "sem": (op, tuple(operands), intervals.from_operator(op, operands)),
            "multi": len(operands) > 1 and op in ("eq", "neq"), "named": any(not t.isdigit() for t in toks)}


# ------------------------------------------------------------------ ACE


def messy(rng, text: str) -> str:
    """Whitespace variants of one line."""
    roll = rng.random()
    if roll < 0.7:
        return text
    toks = text.split(" ")
    sep = rng.choice(["  ", "   ", "\t", " \t "])
    out = toks[0]
    for tok in toks[1:]:
        out += (sep if rng.random() < 0.4 else " ") + tok
    if rng.random() < 0.5:
        out = rng.choice([" ", "  ", "\t"]) + out
    if rng.random() < 0.5:
        out += rng.choice([" ", "  ", "\t"])
    return out


def gen_ace(rng, platform: str, version: str = "", *, small=None, allow_group=True, allow_nc=True, max_k=4,
            foreign=True, allow_multi=True, allow_neq_multi=False, allow_empty=True, seq=None, action=None,
            protos=None, flags_ok=True, ws=True, names_ok=True, max_operands=10, extra_opts=True) -> dict:
    """One extended ACE in a random accepted spelling; returns text + reader-compatible semantics."""
    action = action or rng.choice(["permit", "permit", "deny"])
    pin = proto_in_vocab(platform)
    roll = rng.random()
    if protos:
        pnum = rng.choice(protos)
    elif roll < 0.45:
        pnum = 6
    elif roll < 0.65:
        pnum = 17
    elif roll < 0.8:
        pnum = 0
    elif roll < 0.9:
        pnum = rng.choice(sorted(set(pin.values())))
    else:
        pnum = rng.randrange(256)
    pnames = [n for n, v in pin.items() if v == pnum]
    ptext = rng.choice(pnames) if pnames and rng.random() < 0.7 else str(pnum)
    if ptext.isdigit() and rng.random() < 0.08:
        ptext = ptext.zfill(rng.choice([2, 3]))  # decimal spelling with leading zeros (006, 017)
    akw = dict(allow_group=allow_group, allow_nc=allow_nc, max_k=max_k, foreign=foreign, small=small)
    src = gen_addr(rng, platform, **akw)
    dst = gen_addr(rng, platform, **akw)
    sport = dport = None
    if pnum in (6, 17):
        pname = "tcp" if pnum == 6 else "udp"
        pkw = dict(small=small, allow_empty=allow_empty, names_ok=names_ok,
                   max_operands=max_operands if allow_multi else 1)
        ops = ["eq", "eq", "neq", "lt", "gt", "range"]
        if rng.random() < 0.35:
            sport = gen_port(rng, pname, platform, version, ops=ops, **pkw)
        if rng.random() < 0.6:
            dport = gen_port(rng, pname, platform, version, ops=ops, **pkw)
        for port in (sport, dport):
            if port and port["multi"] and port["sem"][0] == "neq" and not allow_neq_multi:
                # multi-port neq is owned by C19: reduce to one operand
                one = port["sem"][1][:1]
                port["text"] = "neq " + port["text"].split()[1]
                port["sem"] = ("neq", one, intervals.from_operator("neq", one))
                port["multi"] = False
    flags = []
    if pnum == 6 and flags_ok and rng.random() < 0.3:
        flags = rng.sample(list(names.TCP_FLAGS), rng.randint(1, 3))
    if extra_opts and flags_ok and rng.random() < 0.12:
        # keyword/value options: their order is part of the meaning
        extra = rng.choice([["dscp", rng.choice(["af11", "ef", "cs1", "af43"])], ["precedence", rng.choice(["critical", "internet"])],
                            ["fragments"], ["time-range", rng.choice(["tr1", "work-hours", "daytime", "login", "time", "who"])],
                            ["tos", "max-reliability"]])
        if pnum == 6 and rng.random() < 0.3:
            extra = ["established"]
        flags = flags + extra if rng.random() < 0.7 else extra + flags
    logs = []
    if rng.random() < 0.2:
        logs = [rng.choice(names.LOG_WORDS)]
    if seq is None:
        roll = rng.random()
        seq = 0 if roll < 0.5 else rng.choice([1, 10, 4294967295, rng.randint(1, 5000)])
    seq_txt = ""
    if seq:
        seq_txt = f"{seq} "
    elif rng.random() < 0.05:
        seq_txt = "0 "
    parts = [action, ptext, src["text"]]
    if sport:
        parts.append(sport["text"])
    parts.append(dst["text"])
    if dport:
        parts.append(dport["text"])
    opt_toks = list(flags) + list(logs)
    if flags and logs and rng.random() < 0.25:
        # the log keyword before or between the flag tokens (options come in any order)
        pos = rng.randint(0, len(flags) - 1) if all(f in names.TCP_FLAGS for f in flags) else 0
        opt_toks = list(flags[:pos]) + list(logs) + list(flags[pos:])
    parts.extend(opt_toks)
    text = seq_txt + " ".join(parts)
    if ws:
        text = messy(rng, text)
    sem = {
        "kind": "ace", "type": "extended", "seq": seq, "action": action, "proto": pnum,
        "src": src["sem"], "sport": sport["sem"] if sport else None,
        "dst": dst["sem"], "dport": dport["sem"] if dport else None,
        "flags": tuple(flags), "logs": tuple(logs),
    }
    native = src["native"] and dst["native"]
    feats = {
        "src": src["form"], "dst": dst["form"], "sop": sport["sem"][0] if sport else "", "dop": dport["sem"][0] if dport else "",
        "multi": bool((sport and sport["multi"]) or (dport and dport["multi"])),
        "named": bool((sport and sport["named"]) or (dport and dport["named"])) or not ptext.isdigit(),
        "k": max(src["k"], dst["k"]), "flags": len(flags), "log": bool(logs), "native": native,
        "seq": "0" if not seq else ("max" if seq == 4294967295 else "n"), "ws": text != " ".join(text.split()),
        "pclass": {6: "tcp", 17: "udp", 0: "ip"}.get(pnum, "other"), "pname": not ptext.isdigit(),
    }
    return {"text": text, "sem": sem, "feats": feats}


REMARK_WORDS = ["web", "servers", "permit", "deny", "10", "any", "host", "=", "==", "RULE-1", "to:", "db,", "x.y", "remark",
                "C-1,", "text", "#1", "ip", "eq", "(tmp)", "a/b", "100%", "log", "ignore", "description", "statistics", "(12 matches)", "[match=5]"]


def gen_remark(rng, *, seq=0, heading: str | None = None, uniq: str = "") -> dict:
    words = [rng.choice(REMARK_WORDS) for _ in range(rng.randint(1, 5))]
    text = " ".join(words)
    if rng.random() < 0.06:  # long remarks: Cisco takes up to 100 characters of text
        want = rng.choice([88, 93, 94, 96, 99, 100])
        while len(text) < want:
            text += " " + rng.choice(REMARK_WORDS)
        text = text[:want - len(uniq) - 1 - len(heading or "")].rstrip()
    if uniq:
        text = f"{text} {uniq}"
    if heading is not None:
        text = f"{heading}{text}"
    line = (f"{seq} " if seq else "") + "remark " + text
    return {"text": line, "sem": {"kind": "remark", "seq": seq, "text": " ".join(text.split())}}


ACL_NAMES = ["A", "ACL1", "acl-in", "Edge_OUT", "110", "V.4", "x", "NAME", "extended-dmz", "standard-mgmt", "ACL-IN(1", "ACL[EDGE"]


def acl_header(platform: str, name: str, acl_type: str = "extended") -> str:
    if platform == "ios":
        return f"ip access-list {acl_type} {name}"
    return f"ip access-list {name}"


def gen_acl(rng, platform: str, version: str = "", *, n_lines=None, numbered=None, headings=None, dup_p=0.15,
            indent="  ", ace_kw=None, name=None) -> dict:
    """An extended ACL as text + per-line semantics. headings: prefix string to create group headings."""
    ace_kw = dict(ace_kw or {})
    n_lines = n_lines or rng.randint(1, 14)
    numbered = rng.random() < 0.4 if numbered is None else numbered
    name = name or rng.choice(ACL_NAMES)
    items = []
    seq = 0
    uniq = 0
    for _ in range(n_lines):
        if numbered:
            seq += rng.choice([1, 5, 10, 10, 10])
        roll = rng.random()
        if items and roll < dup_p:
            prev = rng.choice(items)
            sem = dict(prev["sem"])
            line = prev["text"].strip()
            toks = line.split()
            if toks[0].isdigit():
                toks = toks[1:]
            sem["seq"] = seq
            items.append({"text": (f"{seq} " if seq else "") + " ".join(toks), "sem": sem})
            continue
        if roll < 0.3:
            uniq += 1
            if headings is not None and rng.random() < 0.6:
                items.append(gen_remark(rng, seq=seq, heading=headings, uniq=f"h{uniq}"))
            else:
                items.append(gen_remark(rng, seq=seq, uniq=f"r{uniq}"))
            continue
        ace = gen_ace(rng, platform, version, seq=seq, **ace_kw)
        items.append(ace)
    lines = [acl_header(platform, name)] + [indent + it["text"] for it in items]
    return {"text": "\n".join(lines), "name": name, "items": items, "numbered": numbered}
