"""C01 Parsing an ACE keeps its meaning (fields and re-rendered text).

Monitor: post-condition on Ace(...) and Ace.line; oracle: independent reader + bit/interval algebra
+ own name tables.
"""

from __future__ import annotations

from vcheck.gen import grammar
from vcheck.oracle import bits, intervals, names, reader

PROPERTY = "C01"
LEVEL = "exploration"
BUDGET_S = {"quick": 45, "thorough": 600}
FLOOR = {"quick": 2500, "thorough": 40000}
MUST_REACH = ("ace_constructed", "rendered_line_reread", "standard_aces", "line_reassignments_judged", "raised_limit_expansions")
RULE = ("grammar-generated extended ACE texts in every accepted spelling (names/numbers, host vs /32 vs zero wildcard, "
        "any vs all-ones wildcard vs /0, dirty bases, non-contiguous masks k<=4, 5 port operators incl. empty "
        "denotations, eq/neq with 1..10 operands on IOS, flag/log tokens, sequence 0/1/2^32-1, whitespace variants) x "
        "{ios,nxos} x 6 version strings x {port_nr,protocol_nr}; every protocol 0..255 and every table name is hit "
        "once per run before random sampling; judged = ACE constructions compared field by field with the "
        "independent reader + re-read of the rendered line; distinct non-trivial = distinct feature signature with a "
        "non-canonical spelling, a port or a flag"
        " Round 4: every text is also assigned to the line of a live entry that held the previous text (same judgement); one entry per run with max_ncwb=17 whose 2^17-prefix address set is expanded completely."
        " Round 5: lists of service names in any order on either side; group names that merely contain a keyword."
        " Rounds 6-7: log keyword among the flags; a standard text assigned to a live extended entry."
        " Round 9: sibling neq lists in consecutive entries.")
ASSUMPTIONS = ["per-platform name vocabularies are taken from the library's public PortName/Protocol API; numbers from "
               "oracle/names.py", "flag tokens are the six TCP flags; log tokens log/log-input"]


def _addr_sem(addr) -> tuple:
    """Meaning of a parsed Address through its public views."""
    if addr.addrgroup:
        return ("group", addr.addrgroup)
    wild = addr.wildcard
    base, mask = wild.split()
    return ("cube",) + bits.cube(bits.ip2int(base), bits.ip2int(mask))


def _port_sem(port):
    if not port.operator:
        return None
    return intervals.from_ints(port.ports)


def check_ace_against(ctx, case, ace, want: dict, where: str) -> list:
    """Compare a parsed Ace with reader semantics `want`; returns a list of problems."""
    problems = []
    if ace.action != want["action"]:
        problems.append(f"action {ace.action!r} != {want['action']!r}")
    if ace.protocol.number != want["proto"]:
        problems.append(f"protocol number {ace.protocol.number} != {want['proto']}")
    if ace.sequence != want["seq"]:
        problems.append(f"sequence {ace.sequence} != {want['seq']}")
    for side in ("src", "dst"):
        got = _addr_sem(getattr(ace, side + "addr"))
        if got != tuple(want[side]):
            problems.append(f"{side}addr {got} != {tuple(want[side])}")
        elif got[0] == "cube" and bits.ncwb_count(got[2]) <= case.get("expand_max", 6):
            plen, _, nets = bits.expansion((got[1], got[2]))
            lib = sorted((int(n.network_address), n.prefixlen) for n in getattr(ace, side + "addr").ipnets())
            if lib != sorted((n, plen) for n in nets):
                problems.append(f"{side}addr.ipnets() differs from the address set of {bits.cube_text(got[1:])}")
    for side in ("sport", "dport"):
        port = getattr(ace, "src" + "port" if side == "sport" else "dstport")
        got = _port_sem(port)
        exp = want[side][2] if want[side] else None
        if exp is not None:
            exp = tuple(tuple(p) for p in exp)
        if got != exp:
            problems.append(f"{side} set {intervals.encode(got) if got is not None else None} != "
                            f"{intervals.encode(exp) if exp is not None else None}")
    if list(ace.option.flags) != list(want["flags"]):
        problems.append(f"option tokens {ace.option.flags} != {list(want['flags'])} (order is part of keyword/value options)")
    if sorted(ace.option.logs) != sorted(want["logs"]):
        problems.append(f"logs {ace.option.logs} != {list(want['logs'])}")
    return [f"{where}: {p}" for p in problems]


PREV = {}


def execute(ctx, case: dict) -> None:
    from cisco_acl import Ace  # pylint: disable=import-outside-toplevel

    text = case["text"]
    platform, version = case["platform"], case["version"]
    kwargs = dict(platform=platform, version=version, port_nr=case["port_nr"], protocol_nr=case["protocol_nr"])
    acl_type = case.get("type", "extended")
    if acl_type == "standard":
        kwargs["type"] = "standard"
    if case.get("max_ncwb"):
        kwargs["max_ncwb"] = case["max_ncwb"]
    want = reader.read_ace(text, acl_type)
    try:
        ace = Ace(text, **kwargs)
    except Exception as ex:  # pylint: disable=broad-except
        ctx.violation(case, "a valid ACE text was rejected", f"{type(ex).__name__}: {ex}")
        ctx.judged(sig=("rejected",), nontrivial=False)
        return
    ctx.count("ace_constructed")
    problems = check_ace_against(ctx, case, ace, want, "parsed fields")
    line = ace.line
    try:
        again = reader.read_ace(line, acl_type)
    except reader.ReadError as ex:
        problems.append(f"rendered line {line!r} is not readable Cisco syntax: {ex}")
    else:
        ctx.count("rendered_line_reread")
        if again["opts"] != want["opts"]:
            problems.append(f"rendered line {line!r} carries option tokens {list(again['opts'])}, input {list(want['opts'])}")
        if reader.meaning_full(again) != reader.meaning_full(want):
            problems.append(f"rendered line {line!r} means {reader.meaning_full(again)}, input means "
                            f"{reader.meaning_full(want)}")
        bad = reader.validate_ace_line(line, platform, acl_type,
                                       lambda p: grammar.port_vocab(p, platform, version),
                                       grammar.proto_out_vocab(platform))
        for item in bad:
            problems.append(f"rendered line {line!r} is not valid {platform} syntax: {item}")
    for prob in problems:
        ctx.violation(case, "parsed ACE does not keep the meaning of the text", prob)
    # the same parser through the line setter of a live entry that held another text (case["prev_text"]) before
    key = repr(sorted(kwargs.items()))
    prev_text = case.get("prev_text", PREV.get(key))
    PREV[key] = text
    if prev_text and not problems:
        case["prev_text"] = prev_text
        try:
            prev_kw = dict(kwargs)
            if case.get("prev_type"):
                # the live entry is of the other kind (extended <-> standard): the text assigned decides
                prev_kw.pop("type", None)
                if case["prev_type"] == "standard":
                    prev_kw["type"] = "standard"
            live = Ace(prev_text, **prev_kw)
            live.line = text
        except Exception as ex:  # pylint: disable=broad-except
            ctx.violation(case, "a valid ACE text was rejected by the line setter of a live entry", f"{type(ex).__name__}: {ex}")
            return
        ctx.count("line_reassignments_judged")
        probs2 = check_ace_against(ctx, case, live, want, "fields after assigning the text to a live entry")
        if live.line != line:
            probs2.append(f"a live entry that held {prev_text!r} renders {live.line!r}, a new entry {line!r}")
        for prob in probs2:
            ctx.violation(case, "an ACE text assigned to a live entry does not keep its meaning", prob)


def _sig(case, feats) -> tuple:
    ver = case["version"]
    vclass = "15" if ver.startswith("15") else ("def" if ver in ("", "0") else ver[:2])
    return (case["platform"], vclass, case["port_nr"], case["protocol_nr"], feats["pclass"], feats["pname"],
            feats["src"], feats["dst"], feats["sop"], feats["dop"], feats["multi"], feats["flags"], feats["log"],
            feats["seq"], feats["ws"], feats["native"], min(feats["k"], 2))


def _nontrivial(feats) -> bool:
    return bool(feats["sop"] or feats["dop"] or feats["flags"] or feats["ws"] or not feats["native"]
                or feats["named"] or feats["k"])


def _run_generated(ctx, gen, platform, version, port_nr, protocol_nr):
    # cross-check reader vs generator: a disagreement is a harness error
    want = reader.read_ace(gen["text"], "extended")
    if reader.meaning_full(want) != reader.meaning_full(gen["sem"]):
        raise RuntimeError(f"reader/generator disagree on {gen['text']!r}: {reader.meaning_full(want)} vs "
                           f"{reader.meaning_full(gen['sem'])}")
    case = {"text": gen["text"], "platform": platform, "version": version, "port_nr": port_nr,
            "protocol_nr": protocol_nr}
    execute(ctx, case)
    feats = gen["feats"]
    ctx.judged(sig=_sig(case, feats), nontrivial=_nontrivial(feats),
               sample=case if feats["multi"] or feats["k"] else None)


def run(ctx) -> None:
    rng = ctx.rng
    n_max = {"quick": 4000, "thorough": 60000}[ctx.tier]
    done = 0
    idx = 0
    # deterministic part: every protocol number, every protocol name, every port table name
    for platform in grammar.PLATFORMS:
        for num in range(256):
            idx += 1
            if idx % ctx.nshards != ctx.shard:
                continue
            gen = grammar.gen_ace(rng, platform, "", protos=[num])
            _run_generated(ctx, gen, platform, "", rng.random() < 0.5, rng.random() < 0.5)
            done += 1
        for version in ("", "15.2(02)SY", "16.09.06", "9.3(8)"):
            for proto in ("tcp", "udp"):
                for name, num in sorted(grammar.port_vocab(proto, platform, version).items()):
                    idx += 1
                    if idx % ctx.nshards != ctx.shard:
                        continue
                    side = rng.choice(["src", "dst"])
                    text = f"permit {proto} any " + (f"eq {name} any" if side == "src" else f"any eq {name}")
                    sem = reader.read_ace(text)
                    gen = {"text": text, "sem": sem, "feats": {
                        "src": "any", "dst": "any", "sop": "eq" if side == "src" else "", "dop": "eq" if side == "dst" else "",
                        "multi": False, "named": True, "k": 0, "flags": 0, "log": False, "native": True, "seq": "0",
                        "ws": False, "pclass": proto, "pname": True}}
                    _run_generated(ctx, gen, platform, version, rng.random() < 0.3, rng.random() < 0.3)
                    ctx.count("table_names_hit")
                    done += 1
    if ctx.shard in (1, 2):
        # a raised limit (keyword max_ncwb): the address set of a 17-bit non-contiguous wildcard, expanded completely
        side = {1: "permit ip 10.0.0.0 0.255.255.128 any", 2: "deny tcp any 172.16.0.5 85.87.170.170 eq 80"}[ctx.shard]
        case = {"text": side, "platform": rng.choice(grammar.PLATFORMS), "version": "", "port_nr": False, "protocol_nr": False,
                "max_ncwb": 17, "expand_max": 17, "prev_text": ""}
        execute(ctx, case)
        ctx.count("raised_limit_expansions")
        ctx.judged(sig=("max_ncwb", 17, ctx.shard), nontrivial=True, sample=case)
        done += 1
    while done < n_max and not ctx.expired():
        platform = rng.choice(grammar.PLATFORMS)
        version = rng.choice(grammar.VERSIONS)
        if platform == "ios" and rng.random() < 0.06:
            # standard ACE (IOS): permit/deny + source address in every spelling + optional log
            addr = grammar.gen_addr(rng, "ios", allow_group=False, max_k=3)
            text = addr["text"]
            if addr["form"] == "host" and text.startswith("host ") and rng.random() < 0.4:
                text = text.split()[1]  # bare host
            seq = rng.choice([0, 0, 10, 4294967295])
            line = grammar.messy(rng, (f"{seq} " if seq else "") + f"{rng.choice(['permit', 'deny'])} {text}" + rng.choice(["", "", " log"]))
            case = {"text": line, "platform": "ios", "version": version, "port_nr": rng.random() < 0.3,
                    "protocol_nr": rng.random() < 0.3, "type": "standard"}
            if rng.random() < 0.5:  # assigned to a live *extended* entry with ports and a destination
                case["prev_text"] = "permit tcp host 10.0.0.1 eq 80 host 10.0.0.2 eq 443 ack"
                case["prev_type"] = "extended"
            execute(ctx, case)
            ctx.count("standard_aces")
            ctx.judged(sig=("standard", addr["form"], addr["native"], bool(seq), "log" in line), nontrivial=True)
            done += 1
            continue
        if platform == "ios" and rng.random() < 0.03:
            # two entries in a row whose neq lists share length, lowest and highest port and differ in the middle
            lo = rng.randint(1, 60000)
            hi = lo + rng.randint(4, 400)
            mids = rng.sample(range(lo + 1, hi), 2)
            proto = rng.choice(["tcp", "udp"])
            for mid in mids:
                side = rng.choice(["any neq {} any", "any any neq {}"]).format(f"{lo} {mid} {hi}")
                case = {"text": f"permit {proto} {side}", "platform": platform, "version": version, "port_nr": rng.random() < 0.4,
                        "protocol_nr": rng.random() < 0.4}
                execute(ctx, case)
                ctx.judged(sig=("sibling-neq", proto), nontrivial=True)
                done += 1
            ctx.count("sibling_neq_entries")
            continue
        if platform == "ios" and rng.random() < 0.06:
            # lists of service *names* in any order on either side, followed by option tokens
            proto = rng.choice(["tcp", "udp"])
            vocab = sorted(grammar.port_vocab(proto, platform, version))
            def names_list():
                return rng.choice(["eq", "eq", "neq"]) + " " + " ".join(rng.sample(vocab, rng.randint(2, 4)))
            sside = " " + names_list() if rng.random() < 0.4 else ""
            dside = " " + names_list() if rng.random() < 0.8 or not sside else ""
            tail = rng.choice(["", " log", " ack", " established log"]) if proto == "tcp" else rng.choice(["", " log"])
            text = f"{rng.choice(['permit', 'deny'])} {proto} any{sside} {rng.choice(['any', 'host 10.0.0.1', 'object-group anycast-dns'])}{dside}{tail}"
            case = {"text": text, "platform": platform, "version": version, "port_nr": rng.random() < 0.4, "protocol_nr": rng.random() < 0.4}
            execute(ctx, case)
            ctx.count("service_name_lists")
            ctx.judged(sig=("name-lists", proto, bool(sside), bool(dside), tail), nontrivial=True)
            done += 1
            continue
        gen = grammar.gen_ace(rng, platform, version)
        _run_generated(ctx, gen, platform, version, rng.random() < 0.4, rng.random() < 0.4)
        done += 1
    ctx.count("cases", done)


def replay(ctx, case: dict) -> None:
    execute(ctx, case)
    ctx.judged(sig=("replay",))
