"""C11 Shadow answers are exact on group-free entries; the ACL report follows its spec.

Monitor: the C03 tap on Ace.shadow_of in exact mode (equality instead of implication) and a
post-condition tap on Acl.shading / Acl.shadow_of compared with the attribution model
"each ACE that some earlier ACE shadows (by the oracle), once, under the first such ACE".
"""

from __future__ import annotations

from vcheck.checks import C03, shadow_common as sc
from vcheck.gen import grammar
from vcheck.monitor import taps

PROPERTY = "C11"
LEVEL = "exploration"
BUDGET_S = {"quick": 50, "thorough": 700}
FLOOR = {"quick": 4000, "thorough": 40000}
MUST_REACH = ("exact_answers_judged", "exact_positive", "reports_judged", "reports_nonempty")
RULE = ("group-free related pairs (all protocols, contiguous and non-contiguous wildcards k<=3, all port operators with "
        "non-empty denotations, subsets of the six TCP flags, log tokens) x None + every ordering of every subset of the two "
        "skip options; ACLs of 2..12 such entries with duplicates and interleaved remarks, compared with the first-top "
        "attribution model. judged = exact-mode monitor evaluations + reports; distinct non-trivial as in C03 plus "
        "(acl size, #report keys, #reported)"
        " Round 5: wide-wide pairs (two 9..10-bit non-contiguous wildcards); long ACLs of 130..180 entries incl. one of private pairs."
        " Rounds 6-7: mixed kinds (standard entry on one side).")
ASSUMPTIONS = ["ports live in 1..65535; a bottom without a port expression under a top expression covering 1..65535 is "
               "not judged (whether port 0 exists is outside the model)",
               "duplicates share their line text and the API reports text: attribution is judged by text"]

FOUND = C03.FOUND
STATS = C03.STATS


def _model_report(aces, skip) -> dict:
    """Reference attribution by the oracle; aces = list of (line, meaning)."""
    report = {}
    seen = set()
    for i, (tline, top) in enumerate(aces):
        for bline, bottom in aces[i + 1:]:
            if sc.truth(bottom, top) and not sc.skipped(bottom, top, skip) and not sc.is_vacuous(bottom):
                if _canon(bline) not in seen:
                    report.setdefault(tline, []).append(bline)
                seen.add(_canon(bline))
    return report


def _canon(line: str) -> str:
    """Text with the all-ones wildcard spelled 'any' (the only spelling an internal copy changes, K3)."""
    toks = line.split()
    out = []
    i = 0
    while i < len(toks):
        if (toks[i] == "0.0.0.0" and i + 1 < len(toks) and toks[i + 1] == "255.255.255.255"
                and (not out or out[-1] != "host")):
            out.append("any")
            i += 2
        else:
            out.append(toks[i])
            i += 1
    return " ".join(out)


def _canon_report(report: dict) -> dict:
    out = {}
    for key, vals in report.items():
        out.setdefault(_canon(key), []).extend(_canon(v) for v in vals)
    return out


def _pre_shading(self, args, kwargs):
    from cisco_acl import Ace, AceGroup  # pylint: disable=import-outside-toplevel

    aces = []

    def walk(items):
        for item in items:
            if isinstance(item, AceGroup):
                walk(item.items)
            elif isinstance(item, Ace):
                aces.append((item.line, sc.ace_obj_meaning(item)))

    walk(self.items)
    return aces


def _post_shading(self, args, kwargs, result, exc, token):
    if exc is not None or token is None:
        return
    skip = kwargs.get("skip", args[0] if args else None)
    aces = token
    if not all(sc.exact_domain(m) for _, m in aces):
        C03._bump("reports_outside_domain")
        return
    for i, (_, top) in enumerate(aces):
        for _, bottom in aces[i + 1:]:
            if sc.full_cover_corner(bottom, top):
                C03._bump("reports_full_cover_corner_not_judged")
                return
    want = _model_report(aces, skip)
    C03._bump("reports_judged")
    if want:
        C03._bump("reports_nonempty")
    # the report names entries by the text of an internal copy; spelling differences that keep the
    # meaning ('any' vs '0.0.0.0 255.255.255.255', known finding ios-slash0-copy of C16) are not judged here
    if _canon_report(result) != _canon_report(want):
        FOUND.append({"what": "Acl.shading() differs from 'each shadowed ACE once, under the first earlier ACE that shadows it'",
                      "detail": {"got": result, "want": want, "skip": skip, "aces": [ln for ln, _ in aces]}})
    flat = [b for blist in result.values() for b in blist]
    if len(flat) != len(set(flat)):
        FOUND.append({"what": "an ACE is listed more than once in the shading report", "detail": result})


def _post_shadow_list(self, args, kwargs, result, exc, token):
    if exc is not None:
        return
    skip = kwargs.get("skip", args[0] if args else None)
    C03._bump("shadow_lists_judged")
    want = [s for ls in self.shading(skip).values() for s in ls]
    if list(result) != want:
        FOUND.append({"what": "Acl.shadow_of() differs from the values of Acl.shading()", "detail": {"got": result, "want": want}})


def install():
    from cisco_acl import Acl  # pylint: disable=import-outside-toplevel

    taps.tap_method(Acl, "shading", _post_shading, pre=_pre_shading)
    taps.tap_method(Acl, "shadow_of", _post_shadow_list)


def execute(ctx, case: dict) -> None:
    from cisco_acl import Acl  # pylint: disable=import-outside-toplevel

    if case["k"] == "pair":
        C03.execute(ctx, case)
        return
    acl = Acl(case["text"], platform=case["platform"], max_ncwb=20, group_by=case.get("group_by", ""), **case.get("kwargs", {}))
    if case.get("handmade_groups") and not case.get("group_by"):
        # an ACL may hold hand-made AceGroups without group_by: wrap runs of items into groups through the list methods
        from cisco_acl import AceGroup  # pylint: disable=import-outside-toplevel

        items = list(acl.items)
        new, pos = [], 0
        for size in case["handmade_groups"]:
            chunk = items[pos:pos + abs(size)]
            pos += abs(size)
            if not chunk:
                break
            if size > 1:
                new.append(AceGroup(items=chunk, platform=acl.platform, port_nr=acl.port_nr, protocol_nr=acl.protocol_nr))
            else:
                new.extend(chunk)
        new.extend(items[pos:])
        acl.items[:] = new
    try:
        acl.shading(case.get("skip"))
        acl.shadow_of(case.get("skip"))
        # the same object asked again under other skip settings (a report remembered from an earlier call would be wrong)
        for skip in case.get("more_skips", []):
            acl.shading(skip)
            acl.shadow_of(skip)
    except Exception as ex:  # pylint: disable=broad-except
        ctx.violation(case, "shading raised on a valid ACL", f"{type(ex).__name__}: {ex}")
    C03._drain(case, ctx)


def gen_acl_case(rng, platform, n=None, small_p=0.8, tail_pairs=0):
    n = n or rng.randint(2, 12)
    lines = []
    descs = []
    small = sc.SMALL if rng.random() < small_p else None
    heading = rng.choice(["", "", "= "])
    while len(lines) < n:
        if rng.random() < 0.15:
            lines.append(grammar.gen_remark(rng, heading=heading if heading and rng.random() < 0.6 else None,
                                            uniq=f"u{len(lines)}")["text"])
            continue
        if descs and rng.random() < 0.55:
            desc = sc.gen_related_pair(rng, platform, groups=False, small=small)
            desc = sc.derive_bottom(rng, rng.choice(descs), platform, small)
        else:
            desc = sc.gen_related_pair(rng, platform, groups=False, small=small)["top"]
        if descs and rng.random() < 0.15:
            desc = dict(rng.choice(descs))
        descs.append(desc)
        lines.append(sc.compose(desc, platform))
    if len(lines) >= 3 and rng.random() < 0.2:
        # a catch-all entry somewhere above the end (everything below it of the same action is covered; the other action is not)
        lines.insert(rng.randint(0, len(lines) - 2), f"{rng.choice(['permit', 'deny'])} ip any any")
    for _ in range(tail_pairs):
        # covers that are private to one pair, at the far end of a long ACL
        pair = sc.gen_related_pair(rng, platform, groups=False, small=None)
        lines.append(sc.compose(pair["top"], platform))
        lines.append(sc.compose(sc.derive_bottom(rng, pair["top"], platform, None), platform))
    if rng.random() < 0.25 and len(lines) < 400:
        nums = rng.sample(range(1, 500), len(lines))  # fully numbered, numbers in no particular order
        lines = [f"{n} {ln}" for n, ln in zip(nums, lines)]
    text = grammar.acl_header(platform, "X1") + "\n" + "\n".join("  " + ln for ln in lines)
    return {"k": "acl", "platform": platform, "text": text, "group_by": heading,
            "skip": rng.choice([None, None, [], ["addrgroup"], ["nc_wildcard"], ["addrgroup", "nc_wildcard"]]),
            "more_skips": rng.sample([None, [], ["addrgroup"], ["nc_wildcard"], ["nc_wildcard", "addrgroup"]], rng.randint(0, 3)),
            "handmade_groups": [rng.choice([1, 1, 2, 3]) for _ in range(4)] if not heading and rng.random() < 0.3 else [],
            "kwargs": {"port_nr": rng.random() < 0.5, "protocol_nr": rng.random() < 0.7} if rng.random() < 0.35 else {}}


def run(ctx) -> None:
    C03.install()
    install()
    C03.MODE["exact"] = True
    rng = ctx.rng
    n_max = {"quick": 2500, "thorough": 40000}[ctx.tier]
    done = 0
    if ctx.shard in (4, 11):
        # both sides wide: two non-contiguous wildcards of 9..10 bits (512 x 1024 network pairs), one inside the other
        narrow, wide = ("10.0.0.0 0.255.2.127", "10.0.0.0 0.255.2.255") if ctx.shard == 4 else ("172.16.0.0 0.0.255.4", "172.16.0.0 0.1.255.4")
        for top_a, bot_a in ((narrow, wide), (wide, narrow), (narrow, narrow)):
            side = "src" if ctx.shard == 4 else "dst"
            top = {"action": "permit", "proto": 0, "src": "any", "dst": "any"}
            bot = dict(top)
            top[side], bot[side] = top_a, bot_a
            case = {"k": "pair", "platform": "ios", "top": top, "bottom": bot}
            execute(ctx, case)
            case.pop("_answer", None)
            ctx.count("wide_wide_pairs")
            ctx.judged(sig=("wide-wide", top_a, bot_a), nontrivial=True, sample=case)
            done += 1
    if ctx.shard in (6, 13):
        # a long ACL made of many private (top, bottom) pairs: every cover is reported under its own top, whatever the position
        platform = "ios" if ctx.shard == 6 else "nxos"
        lines = []
        for i in range(rng.randint(70, 90)):
            act, proto = rng.choice(["permit", "deny"]), rng.choice(["tcp", "udp", "ip"])
            port = f" eq {1000 + i}" if proto != "ip" else ""
            net = f"10.{i}.0.0 0.0.255.255" if platform == "ios" else f"10.{i}.0.0/16"
            host = f"host 10.{i}.{rng.randint(0, 255)}.{rng.randint(1, 254)}" if platform == "ios" else f"10.{i}.{rng.randint(0, 255)}.7/32"
            if rng.random() < 0.5:
                lines += [f"{act} {proto} {net} any{port}", f"{act} {proto} {host} any{port}"]
            else:
                lines += [f"{act} {proto} any {net}{port}", f"{act} {proto} any {host}{port}"]
            if rng.random() < 0.15:
                lines.append(f"remark after pair {i}")
        case = {"k": "acl", "platform": platform, "text": grammar.acl_header(platform, "PAIRS") + "\n" + "\n".join("  " + ln for ln in lines),
                "group_by": "", "skip": None, "more_skips": [], "handmade_groups": [], "kwargs": {}}
        execute(ctx, case)
        ctx.count("long_acls")
        ctx.judged(sig=("long-acl-pairs", ctx.shard), nontrivial=True)
        done += 1
    if ctx.shard in (5, 12):
        # a long ACL (well over 100 entries): the report clause does not depend on the length
        # (shard 5: entries from the whole address space, so most covers are private to one pair; shard 12: small world)
        case = gen_acl_case(rng, "ios" if ctx.shard == 5 else "nxos", n=rng.randint(130, 160), small_p=0.0 if ctx.shard == 5 else 1.0,
                            tail_pairs=8)
        case["handmade_groups"] = []
        execute(ctx, case)
        ctx.count("long_acls")
        ctx.judged(sig=("long-acl", ctx.shard), nontrivial=True)
        done += 1
    while done < n_max and not ctx.expired():
        platform = rng.choice(["ios", "nxos"])
        before = STATS.get("shadow_of_calls_judged", 0) + STATS.get("reports_judged", 0)
        if rng.random() < 0.7:
            pair = sc.gen_related_pair(rng, platform, groups=False, small=sc.SMALL if rng.random() < 0.4 else None)
            case = {"k": "pair", "platform": platform, **pair}
            if rng.random() < 0.35:
                case["kwargs"] = {"port_nr": rng.random() < 0.5, "protocol_nr": rng.random() < 0.7}
            elif platform == "ios" and rng.random() < 0.1:
                case["standard"] = rng.choice(["top", "bottom", "bottom"])  # mixed kinds: a standard entry on one side
            execute(ctx, case)
            sig = C03._pair_sig(case)
            ans = case.pop("_answer", None)
            ctx.judged(sig=sig, nontrivial=True, sample=case if ans and done % 40 == 0 else None,
                       n=max(1, STATS.get("shadow_of_calls_judged", 0) + STATS.get("reports_judged", 0) - before))
        else:
            case = gen_acl_case(rng, platform)
            r0 = STATS.get("reports_nonempty", 0)
            execute(ctx, case)
            ctx.judged(sig=("acl", platform, case["text"].count("\n"), repr(case["skip"]), bool(case["group_by"]),
                            STATS.get("reports_nonempty", 0) > r0),
                       nontrivial=True, sample=case if done % 100 == 0 else None,
                       n=max(1, STATS.get("shadow_of_calls_judged", 0) + STATS.get("reports_judged", 0) - before))
        done += 1
    for key, val in STATS.items():
        ctx.count(key, val)
    ctx.count("cases", done)


def replay(ctx, case: dict) -> None:
    C03.install()
    install()
    C03.MODE["exact"] = True
    execute(ctx, case)
    ctx.judged(sig=("replay",))
