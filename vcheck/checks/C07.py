"""C07 Config-level extraction returns exactly the ACLs, bindings and group members.

Monitor: post-conditions on the returns of cisco_acl.acls / aces / addrgroups (taps on
cisco_acl.functions). Oracle: ground truth by construction - the configuration is rendered from an
abstract device (ACLs, groups with member cubes, interfaces with bindings, noise) in many textual
ways; results are compared with the abstract device through the independent reader and the bit
oracle; two renderings of one device must give equal results (metamorphic).
"""

from __future__ import annotations

from vcheck.checks.C13 import rand_cube, spell
from vcheck.gen import grammar
from vcheck.monitor import taps
from vcheck.oracle import bits, reader

PROPERTY = "C07"
LEVEL = "exploration"
BUDGET_S = {"quick": 45, "thorough": 600}
FLOOR = {"quick": 800, "thorough": 8000}
MUST_REACH = ("acls_returns_judged", "aces_returns_judged", "addrgroups_returns_judged", "bindings_judged",
              "member_attachments_judged", "two_acls_on_one_interface", "metamorphic_pairs")
RULE = ("abstract devices: 0..4 extended (and IOS standard) ACLs of 1..8 entries/remarks, 0..3 address groups of 1..6 members "
        "(IOS subnet masks / NX-OS prefixes and wildcards), entries referencing defined and undefined groups, 0..5 interfaces "
        "with in/out bindings incl. two different ACLs on one interface, one ACL on many, bindings to undefined ACLs, "
        "interfaces without bindings; rendered with random section order, noise sections with nested indentation, '!' lines, "
        "blank lines, indentation 1..8 or tab; name filters. judged = function returns compared with the abstract device; "
        "distinct non-trivial = (#acls, #groups, #bindings, two-acl-interface?, noise, indent, filter)"
        " Round 4: remarks of 88..100 characters; the public ConfigParser.acls() tapped and one parser asked repeatedly with name/type filters."
        " Round 5: interface headers with additional tokens."
        " Rounds 6-7: names differing in letter case; group names with punctuation."
        " Round 8: remark words ignore/description/statistics.")
ASSUMPTIONS = ["every ACL section has at least one body line (whether a header-only section is 'an access list' is ambiguous; "
               "observed, not judged)", "nested group-object members raise TypeError by design and are generated only in C20",
               "'!' comment lines start in column 0 as in device output"]

FOUND = []
STATS = {}
EXPECT = {"dev": None}


def _bump(name, n=1):
    STATS[name] = STATS.get(name, 0) + n


def _valid(line, platform, acl_type):
    version = EXPECT.get("version") or ""
    return reader.validate_ace_line(line, platform, acl_type, lambda p: grammar.port_vocab(p, platform, version),
                                    grammar.proto_out_vocab(platform))


def _member_cubes(addr):
    out = []
    for item in addr.items:
        base, mask = item.wildcard.split()
        out.append(bits.cube(bits.ip2int(base), bits.ip2int(mask)))
    return out


def _flat(items):
    out = []
    for item in items:
        if type(item).__name__ == "AceGroup":
            out.extend(_flat(item.items))
        else:
            out.append(item)
    return out


def _judge_acl(acl, want, dev, problems):
    name = want["name"]
    if acl.type != want["type"]:
        problems.append(f"ACL {name}: type {acl.type!r} expected {want['type']!r}")
    flat = _flat(acl.items)
    if len(flat) != len(want["entries"]):
        problems.append(f"ACL {name}: {len(flat)} items, configuration has {len(want['entries'])} entries: {[i.line for i in flat][:6]}")
        return
    for item, text in zip(flat, want["entries"]):
        try:
            wsem = reader.read_item(text, want["type"])
            gsem = reader.read_item(item.line, want["type"])
        except reader.ReadError as ex:
            problems.append(f"ACL {name}: item {item.line!r} unreadable: {ex}")
            continue
        if wsem["kind"] == "remark":
            if gsem != wsem:
                problems.append(f"ACL {name}: remark {text!r} became {item.line!r}")
            continue
        if reader.meaning_full(gsem) != reader.meaning_full(wsem):
            problems.append(f"ACL {name}: entry {text!r} became {item.line!r} (out of order or changed)")
            continue
        bad = _valid(item.line, dev["platform"], want["type"])
        if bad:
            problems.append(f"ACL {name}: entry renders {item.line!r}, not valid for this platform/version: {bad}")
        for side in ("src", "dst"):
            sem = wsem[side]
            addr = getattr(item, side + "addr")
            if sem[0] != "group":
                continue
            _bump("member_attachments_judged")
            got = _member_cubes(addr)
            defined = dev["groups"].get(sem[1])
            if defined is None:
                if got:
                    problems.append(f"ACL {name}: entry {text!r} got members for an undefined group")
            elif got != defined:
                problems.append(f"ACL {name}: entry {text!r} has members {[bits.cube_text(c) for c in got][:5]}, group "
                                f"{sem[1]} defines {[bits.cube_text(c) for c in defined][:5]}")
    want_in = sorted(f"interface {i}" for i, binds in dev["intfs"].items() if (name, "in") in binds)
    want_out = sorted(f"interface {i}" for i, binds in dev["intfs"].items() if (name, "out") in binds)
    _bump("bindings_judged")
    if list(acl.input) != want_in or list(acl.output) != want_out:
        problems.append(f"ACL {name}: bindings in={acl.input} out={acl.output}, configuration says in={want_in} out={want_out}")


def _post_acls(args, kwargs, result, exc, token):
    dev = EXPECT["dev"]
    if dev is None:
        return
    _bump("acls_returns_judged")
    if exc is not None:
        FOUND.append({"what": "acls() raised on a valid configuration", "detail": repr(exc)})
        return
    problems = []
    names_filter = kwargs.get("names")
    want_acls = [a for a in dev["acls"] if names_filter is None or a["name"] in names_filter]
    got_names = [a.name for a in result]
    if sorted(got_names) != sorted(a["name"] for a in want_acls):
        problems.append(f"returned ACLs {got_names}, configuration defines {[a['name'] for a in want_acls]} (filter {names_filter})")
    else:
        by_name = {a.name: a for a in result}
        for want in want_acls:
            _judge_acl(by_name[want["name"]], want, dev, problems)
    for prob in problems:
        FOUND.append({"what": "acls() does not return exactly what the configuration defines", "detail": prob})


def _post_aces(args, kwargs, result, exc, token):
    dev = EXPECT["dev"]
    if dev is None:
        return
    _bump("aces_returns_judged")
    if exc is not None:
        FOUND.append({"what": "aces() raised on a valid configuration", "detail": repr(exc)})
        return
    want = [(text, a["type"]) for a in dev["render_order_acls"] for text in a["entries"]]
    flat = _flat(result)
    if len(flat) != len(want):
        FOUND.append({"what": "aces() does not return every entry of the configuration in order",
                      "detail": {"got": [i.line for i in flat][:10], "want": [t for t, _ in want][:10]}})
        return
    for item, (text, acl_type) in zip(flat, want):
        try:
            wsem = reader.read_item(text, acl_type)
            if wsem["kind"] == "remark":
                same = reader.read_remark(item.line) == wsem
            else:
                gsem = reader.read_item(item.line, item.type)
                same = reader.meaning_full(gsem) == reader.meaning_full(wsem)
        except reader.ReadError:
            same = False
        if not same:
            FOUND.append({"what": "aces() returned a different entry", "detail": {"got": item.line, "want": text}})
            return
        if type(item).__name__ == "Ace":
            bad = _valid(item.line, dev["platform"], item.type)
            if bad:
                FOUND.append({"what": "aces() renders an entry that is not valid for this platform/version",
                              "detail": {"line": item.line, "problems": bad, "version": EXPECT.get("version")}})
                return


def _post_addrgroups(args, kwargs, result, exc, token):
    dev = EXPECT["dev"]
    if dev is None:
        return
    _bump("addrgroups_returns_judged")
    if exc is not None:
        FOUND.append({"what": "addrgroups() raised on a valid configuration", "detail": repr(exc)})
        return
    got = {}
    for grp in result:
        if grp.name in got:
            FOUND.append({"what": "addrgroups() returned a group twice", "detail": grp.name})
        cubes = []
        for item in grp.items:
            base, mask = item.wildcard.split()
            cubes.append(bits.cube(bits.ip2int(base), bits.ip2int(mask)))
        got[grp.name] = cubes
    if got != dev["groups"]:
        FOUND.append({"what": "addrgroups() does not return exactly the groups and members of the configuration",
                      "detail": {"got": {k: [bits.cube_text(c) for c in v] for k, v in got.items()},
                                 "want": {k: [bits.cube_text(c) for c in v] for k, v in dev["groups"].items()}}})


def _post_parser_acls(self, args, kwargs, result, exc, token):
    """ConfigParser.acls() (public, also the worker behind acls()): every call on one parser object is judged alone."""
    dev = EXPECT["dev"]
    if dev is None:
        return
    _bump("parser_acls_returns_judged")
    if exc is not None:
        FOUND.append({"what": "ConfigParser.acls() raised on a valid configuration", "detail": repr(exc)})
        return
    type_filter = kwargs.get("type", args[0] if args else "")
    names_filter = kwargs.get("names")
    want_acls = [a for a in dev["acls"] if (names_filter is None or a["name"] in names_filter)
                 and (not type_filter or a["type"] == type_filter)]
    problems = []
    got_names = [d.get("name") for d in result]
    if sorted(got_names) != sorted(a["name"] for a in want_acls):
        problems.append(f"returned ACLs {got_names}, configuration defines {[a['name'] for a in want_acls]} "
                        f"(names {names_filter}, type {type_filter!r})")
    else:
        by_name = {d["name"]: d for d in result}
        for want in want_acls:
            got = by_name[want["name"]]
            name = want["name"]
            if got.get("type") != want["type"]:
                problems.append(f"ACL {name}: type {got.get('type')!r} expected {want['type']!r}")
            body = [" ".join(ln.split()) for ln in str(got.get("line", "")).split("\n")[1:] if ln.strip()]
            if body != [" ".join(e.split()) for e in want["entries"]]:
                problems.append(f"ACL {name}: body lines {body[:5]} differ from the configuration's {want['entries'][:5]}")
            want_in = sorted(f"interface {i}" for i, binds in dev["intfs"].items() if (name, "in") in binds)
            want_out = sorted(f"interface {i}" for i, binds in dev["intfs"].items() if (name, "out") in binds)
            if sorted(got.get("input", [])) != want_in or sorted(got.get("output", [])) != want_out:
                problems.append(f"ACL {name}: bindings in={got.get('input')} out={got.get('output')}, configuration says "
                                f"in={want_in} out={want_out} (names {names_filter})")
    for prob in problems:
        FOUND.append({"what": "ConfigParser.acls() does not return exactly what the configuration defines", "detail": prob})


def install():
    from cisco_acl import ConfigParser, functions  # pylint: disable=import-outside-toplevel

    taps.tap_method(ConfigParser, "acls", _post_parser_acls)

    taps.tap_function(functions, "acls", _post_acls)
    taps.tap_function(functions, "aces", _post_aces)
    taps.tap_function(functions, "addrgroups", _post_addrgroups)


def _drain(case, ctx):
    for item in FOUND:
        ctx.violation(case, item["what"], item["detail"])
    del FOUND[:]
    if taps.TAP_ERRORS:
        raise RuntimeError("monitor error: " + taps.TAP_ERRORS[0])


# ------------------------------------------------------------------ abstract device -> text


def render(dev: dict, style: dict, rng) -> str:
    """Render the abstract device as configuration text."""
    platform = dev["platform"]
    ind = style["indent"]
    sections = []
    for acl in dev["acls"]:
        lines = [grammar.acl_header(platform, acl["name"], acl["type"])] + [ind + e for e in acl["entries"]]
        sections.append(("acl", acl["name"], lines))
    for name, members in dev["group_texts"].items():
        head = f"object-group network {name}" if platform == "ios" else f"object-group ip address {name}"
        sections.append(("grp", name, [head] + [ind + m for m in members]))
    for name, binds in dev["intfs"].items():
        lines = [f"interface {name}"]
        body = [f"ip address 10.{rng.randrange(255)}.0.1 255.255.255.0"] if rng.random() < 0.6 else []
        for acl_name, direction in binds:
            body.append(f"ip access-group {acl_name} {direction}")
        if rng.random() < 0.4:
            body.append("no shutdown")
        rng.shuffle(body)
        if len(body) >= 2 and style.get("split_intf") and rng.random() < 0.5:
            # the same interface in two sections (merged configurations): both halves count
            cut = rng.randint(1, len(body) - 1)
            sections.append(("intf", name, lines + [ind + b for b in body[:cut]]))
            sections.append(("intf", name, lines + [ind + b for b in body[cut:]]))
        else:
            sections.append(("intf", name, lines + [ind + b for b in body]))
    for n in range(style["noise"]):
        kind = rng.choice(["bgp", "vlan", "line", "flat", "snmp"])
        if kind == "bgp":
            sections.append(("noise", n, [f"router bgp 6500{n}", ind + "neighbor 10.0.0.1 remote-as 65001", ind + "address-family ipv4 unicast",
                                          ind + ind + "network 10.0.0.0/8", ind + ind + ind + "route-map X out", ind + "log-neighbor-changes"]))
        elif kind == "vlan":
            sections.append(("noise", n, [f"vlan {100 + n}", ind + f"name V{n}"]))
        elif kind == "line":
            sections.append(("noise", n, ["line vty 0 4", ind + "transport input ssh", ind + "access-class 10 in"]))
        elif kind == "snmp":
            sections.append(("noise", n, [f"snmp-server community c{n} RO", "hostname R1"]))
        else:
            sections.append(("noise", n, [f"ip route 10.{n}.0.0 255.255.0.0 10.0.0.1", f"ip prefix-list P{n} seq 5 permit 10.0.0.0/8"]))
    order = list(range(len(sections)))
    if style["shuffle"]:
        rng.shuffle(order)
    out = []
    render_acls = []
    for idx in order:
        kind, name, lines = sections[idx]
        if kind == "acl":
            render_acls.append(next(a for a in dev["acls"] if a["name"] == name))
        if style["bang"] and rng.random() < 0.5:
            out.append("!")
        out.extend(lines)
        if style["blank"] and rng.random() < 0.3:
            out.append("")
    if style["bang"]:
        out.insert(0, "! generated")
        out.append("!")
        out.append("end")
    dev["render_order_acls"] = render_acls
    return "\n".join(out) + "\n"


def gen_device(rng) -> dict:
    platform = rng.choice(["ios", "nxos"])
    groups = {}
    group_texts = {}
    gnames = rng.choice([["G1", "G2", "G3"], ["G1", "G2", "G3"], ["NET:DMZ", "SRV/WEB+DB", "NET@EDGE"], ["anycast-dns", "g.1", "Web_Srv"]])
    for n in range(rng.randint(0, 3)):
        name = gnames[n]
        cubes = []
        texts = []
        for _ in range(rng.randint(1, 6)):
            cube = rand_cube(rng, 2 if platform == "nxos" and rng.random() < 0.3 else 0)
            text = spell(rng, cube, platform, "AddressAg")
            if text is None or (platform == "ios" and "/" in text):
                continue
            if platform == "nxos" and rng.random() < 0.4:
                text = f"{(len(texts) + 1) * 10} {text}"
            cubes.append(cube)
            texts.append(text)
        if not texts:
            cubes, texts = [bits.cube(0x0A000001, 0)], ["host 10.0.0.1"]
        if platform == "ios" and rng.random() < 0.3:
            texts.insert(rng.randint(0, len(texts)), "description some group")
        groups[name] = cubes
        group_texts[name] = texts
    acls = []
    version = rng.choice(["", "", "15.2(02)SY", "16.09.06"])
    word = "object-group" if platform == "ios" else "addrgroup"
    for n in range(rng.randint(0, 4)):
        name = rng.choice(["A", "EDGE", "acl", "V4", "x-"]) + str(n + 1)
        if acls and rng.random() < 0.3:  # a name that has another ACL's name as a proper prefix
            name = rng.choice(acls)["name"] + rng.choice(["0", "_V2", "-b"])
        if acls and rng.random() < 0.15:  # a name that differs from another ACL's name in letter case only
            name = rng.choice(acls)["name"].swapcase()
        while name in [a["name"] for a in acls]:
            name += "z"
        acl_type = "standard" if platform == "ios" and rng.random() < 0.2 else "extended"
        entries = []
        seq = 0
        numbered = rng.random() < 0.4
        for idx in range(rng.randint(1, 8)):
            if numbered:
                seq += 10
            pre = f"{seq} " if seq else ""
            roll = rng.random()
            if roll < 0.2:
                entries.append(grammar.gen_remark(rng, seq=seq, uniq=f"{name}u{idx}",
                                                  heading=rng.choice([None, "= ", "#"]))["text"])
            elif acl_type == "standard":
                entries.append(pre + rng.choice(["permit", "deny"]) + " " + rng.choice(["any", f"host 10.{n}.{idx}.1", f"10.{n}.{idx}.0 0.0.0.255"]))
            elif roll < 0.45:
                gname = rng.choice(gnames + ["GX"])
                other = grammar.gen_addr(rng, platform, allow_group=False, foreign=False, max_k=2)["text"]
                pair = (f"{word} {gname}", other) if rng.random() < 0.5 else (other, f"{word} {gname}")
                if rng.random() < 0.2:
                    pair = (f"{word} {gname}", f"{word} {rng.choice(gnames[:2])}")
                entries.append(f"{pre}{rng.choice(['permit', 'deny'])} {rng.choice(['ip', 'tcp', 'udp'])} {pair[0]} {pair[1]}")
            else:
                if rng.random() < 0.15:  # ports whose name depends on the software version
                    pr, num = rng.choice([("tcp", 135), ("tcp", 15001), ("tcp", 514), ("udp", 521), ("tcp", 3949)])
                    entries.append(f"{pre}permit {pr} any any eq {num}")
                else:
                    entries.append(grammar.gen_ace(rng, platform, version, allow_group=False, foreign=False, seq=seq, ws=False,
                                                   max_k=2, allow_neq_multi=True)["text"])
        if len(entries) > 1 and not numbered and rng.random() < 0.2:
            # duplicate entry; a duplicated *heading* remark is merged by group_by (one group per heading), so only
            # permit/deny lines and plain remarks are duplicated
            pool = [e for e in entries if "remark =" not in e and "remark #" not in e]
            if pool:
                entries.insert(rng.randint(1, len(entries)), rng.choice(pool))
        acls.append({"name": name, "type": acl_type, "entries": entries})
    intfs = {}
    acl_names = [a["name"] for a in acls] + ["UNDEFINED"]
    if acls and rng.random() < 0.3:  # a binding to an undefined list whose name differs from a defined one in letter case only
        other_case = rng.choice(acls)["name"].swapcase()
        if other_case not in acl_names:
            acl_names.append(other_case)
    for n in range(rng.randint(0, 5)):
        iname = rng.choice(["Ethernet1/", "GigabitEthernet0/0/", "Vlan", "port-channel"]) + str(n + 1)
        if rng.random() < 0.15:  # headers that carry more than the name
            iname = rng.choice([f"Serial0/0.{100 + n} point-to-point", f"Virtual-Template{n + 1} type tunnel",
                                f"GigabitEthernet0/0/{n + 1}.20 l2transport", f"Serial0/1.{n + 1} multipoint"])
        binds = []
        roll = rng.random()
        if roll < 0.25:
            pass
        elif roll < 0.5:
            binds.append((rng.choice(acl_names), rng.choice(["in", "out"])))
        elif roll < 0.8:
            binds.append((rng.choice(acl_names), "in"))
            binds.append((rng.choice(acl_names), "out"))
        else:
            a = rng.choice(acl_names)
            binds.append((a, "in"))
            binds.append((a, "out"))
        intfs[iname] = binds
    return {"platform": platform, "acls": acls, "groups": groups, "group_texts": group_texts, "intfs": intfs, "version": version}


def gen_style(rng) -> dict:
    ind = rng.choice([" ", "  ", "   ", "    ", "        ", "\t"])
    return {"indent": ind, "noise": rng.randint(0, 4), "shuffle": rng.random() < 0.7, "bang": rng.random() < 0.5,
            "blank": rng.random() < 0.3, "split_intf": rng.random() < 0.3}


def _result_key(acls):
    return [(a.name, a.type, a.line, list(a.input), list(a.output),
             [[i.line for i in x.srcaddr.items] + ["|"] + [i.line for i in x.dstaddr.items] for x in _flat(a.items) if type(x).__name__ == "Ace"])
            for a in sorted(acls, key=lambda o: o.name)]


def execute(ctx, case: dict) -> None:
    import random  # pylint: disable=import-outside-toplevel

    import cisco_acl  # pylint: disable=import-outside-toplevel

    dev = case["dev"]
    dev["groups"] = {k: [tuple(c) for c in v] for k, v in dev["groups"].items()}
    dev["intfs"] = {k: [tuple(b) for b in v] for k, v in dev["intfs"].items()}
    platform = dev["platform"]
    results = []
    for n, style in enumerate(case["styles"]):
        rng = random.Random(case["rseed"] + n)
        text = render(dev, style, rng)
        EXPECT["dev"] = dev
        EXPECT["version"] = case.get("version", "")
        try:
            kw = {"platform": platform}
            if case.get("version"):
                kw["version"] = case["version"]
            if case.get("names") is not None:
                kw["names"] = list(case["names"])
            if case.get("group_by"):
                kw["group_by"] = case["group_by"]
            res = cisco_acl.acls(text, **kw)
            results.append(_result_key(res))
            cisco_acl.aces(text, platform=platform, group_by=case.get("group_by", ""), **({"version": case["version"]} if case.get("version") else {}))
            cisco_acl.addrgroups(text, platform=platform)
            if n == 0 and case.get("parser_calls"):
                # one parser object asked several times (filters that match nothing, some, all; by type)
                parser = cisco_acl.ConfigParser(config=text, platform=platform)
                parser.parse_config()
                for names_f, type_f in case["parser_calls"]:
                    kw2 = {} if names_f is None else {"names": list(names_f)}
                    if type_f:
                        kw2["type"] = type_f
                    parser.acls(**kw2)
                    ctx.count("parser_reuse_calls")
        except Exception:  # pylint: disable=broad-except
            results.append(None)  # judged by the taps
        finally:
            EXPECT["dev"] = None
        if any(len({a for a, _ in binds}) > 1 for binds in dev["intfs"].values()):
            ctx.count("two_acls_on_one_interface")
    if len(results) == 2 and None not in results:
        ctx.count("metamorphic_pairs")
        if results[0] != results[1]:
            ctx.violation(case, "two renderings of one device (section order, noise, comments, indentation) give different results",
                          {"first": str(results[0])[:600], "second": str(results[1])[:600]})
    _drain(case, ctx)


def run(ctx) -> None:
    install()
    rng = ctx.rng
    n_max = {"quick": 1200, "thorough": 20000}[ctx.tier]
    done = 0
    while done < n_max and not ctx.expired():
        dev = gen_device(rng)
        names = None
        if dev["acls"] and rng.random() < 0.3:
            names = rng.sample([a["name"] for a in dev["acls"]] + ["nope"], rng.randint(0, min(2, len(dev["acls"]))))
        case = {"dev": dev, "styles": [gen_style(rng), gen_style(rng)], "rseed": rng.randrange(1 << 30), "names": names,
                "version": dev.get("version", ""),
                "group_by": rng.choice(["", "", "= ", "#"])}
        if rng.random() < 0.4:
            pool = [a["name"] for a in dev["acls"]] + ["nope"]
            case["parser_calls"] = [[rng.choice([None, [], rng.sample(pool, rng.randint(1, min(2, len(pool))))]),
                                     rng.choice(["", "", "", "extended", "standard"])] for _ in range(rng.randint(2, 4))]
        before = sum(STATS.values())
        execute(ctx, case)
        done += 1
        dev.pop("render_order_acls", None)
        n_binds = sum(len(b) for b in dev["intfs"].values())
        ctx.judged(sig=(dev["platform"], len(dev["acls"]), len(dev["groups"]), min(n_binds, 5),
                        any(len({a for a, _ in b}) > 1 for b in dev["intfs"].values()),
                        case["styles"][0]["noise"] > 0, case["styles"][0]["indent"], names is not None),
                   nontrivial=bool(dev["acls"]), n=max(1, sum(STATS.values()) - before),
                   sample={"platform": dev["platform"], "acls": dev["acls"][:1], "intfs": dev["intfs"]} if done % 150 == 1 else None)
    for key, val in STATS.items():
        ctx.count(key, val)
    ctx.count("cases", done)


def replay(ctx, case: dict) -> None:
    install()
    case["dev"].pop("render_order_acls", None)
    execute(ctx, case)
    ctx.judged(sig=("replay",))
