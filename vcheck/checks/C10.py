"""C10 Resequencing numbers every line start, start+step, ... and changes nothing else.

Monitors: pre/post tap (snapshot + post-condition) on the outermost call of AceGroup.resequence
(Acl inherits it) and AddrGroup.resequence. Oracle: arithmetic numbering model.
"""

from __future__ import annotations

from vcheck.gen import grammar
from vcheck.monitor import taps

PROPERTY = "C10"
LEVEL = "exploration"
BUDGET_S = {"quick": 45, "thorough": 600}
FLOOR = {"quick": 1500, "thorough": 15000}
MUST_REACH = ("resequence_returns_judged", "resequence_raises_judged", "addrgroup_resequence_judged", "grouped_shapes", "mixed_shapes", "calls_after_a_raise", "nested_group_members")
RULE = ("ACL shapes: flat, grouped by remark prefix (blocks of 1..n items), ACLs with previous numbering (none, partial, "
        "arbitrary, duplicates), 1..14 lines, both platforms; AceGroup objects; address groups of 1..8 members; start in "
        "{0, 1, 10, random, 2^32-1-n*d-1..+1, 2^32-1, 2^32, -1, -5}, step in {-5, 0, 1, 7, 10, 2^31, 2^32-2, 2^32-1, 2^32, 2^40, random}; 8 % one-line objects. judged = "
        "monitor evaluations of outermost calls (normal returns and raises); distinct non-trivial = (class, platform, "
        "shape, start class, step class, outcome)"
        " Round 4: everything but the numbers compared at the caller's side around every call (nesting, identities, uuids, notes, names)."
        " Round 5: a block that is itself an Acl object."
        " Rounds 6-7: two-level nesting."
        " Round 8: entry-less ACLs (argument rules).")
ASSUMPTIONS = ["an empty ACL returns `start` (nothing to number) and is not judged",
               "a call that follows a raising call on the same object is judged like any other (resequence renumbers everything)",
               "partial renumbering before a raise is not judged",
               "the block-level sequence attribute of an AceGroup is not part of the property (remarks and ACEs carry the numbers)"]

MAXSEQ = 4294967295
FOUND = []
STATS = {}


def _bump(name):
    STATS[name] = STATS.get(name, 0) + 1


def _flat(items):
    out = []
    for item in items:
        if hasattr(item, "items") and type(item).__name__ in ("AceGroup", "Acl"):
            out.extend(_flat(item.items))
        else:
            out.append(item)
    return out


def _strip_seq(line: str) -> str:
    toks = line.split()
    if toks and toks[0].isdigit():
        toks = toks[1:]
    return " ".join(toks)


def _shape(items):
    return [len(i.items) if type(i).__name__ == "AceGroup" else 0 for i in items]


def _client_view(obj) -> dict:
    """Everything but the numbers, as the caller sees it: nesting, object identity, ids, notes, names, texts."""
    top = list(obj.items)
    flat = _flat(top)
    return {"shape": _shape(top), "top_ids": [id(i) for i in top], "flat_ids": [id(i) for i in flat],
            "uuids": [i.uuid for i in top] + [i.uuid for i in flat],
            "notes": [getattr(i, "note", None) for i in top],
            "names": [getattr(i, "name", None) for i in top],
            "texts": [_strip_seq(i.line) for i in flat],
            "own": (getattr(obj, "name", None), getattr(obj, "note", None), obj.uuid, getattr(obj, "group_by", None),
                    getattr(obj, "type", None), obj.platform)}


def _pre(self, args, kwargs):
    if "items" in kwargs:
        return None  # inner recursive call: judged through the outermost call only
    flat = _flat(self.items)
    return {"flat": flat, "uuids": [i.uuid for i in flat], "texts": [_strip_seq(i.line) for i in flat],
            "shape": _shape(self.items), "top": list(self.items)}


def _args(args, kwargs):
    start = kwargs.get("start", args[0] if args else 10)
    step = kwargs.get("step", args[1] if len(args) > 1 else 10)
    return start, step


def _post(self, args, kwargs, result, exc, token):
    if token is None:
        return
    start, step = _args(args, kwargs)
    flat0 = token["flat"]
    count = len(flat0)
    if count == 0:
        # nothing to number: only the argument rules can be judged (start outside the range, step below 1 with a positive start)
        _bump("entry_less_objects_judged")
        bad_args = (not 0 <= start <= MAXSEQ) or (start > 0 and step < 1)
        if bad_args and exc is None:
            FOUND.append({"what": "resequence of an entry-less object accepted a start outside 0..4294967295 or a step below 1",
                          "detail": {"class": type(self).__name__, "start": start, "step": step, "result": result}})
        elif not bad_args and exc is not None:
            FOUND.append({"what": "resequence of an entry-less object raised although start and step are in range",
                          "detail": {"class": type(self).__name__, "start": start, "step": step, "exc": repr(exc)}})
        return
    cls = type(self).__name__
    must_raise = None
    if not 0 <= start <= MAXSEQ:
        must_raise = "start outside 0..4294967295"
    elif start > 0 and step < 1:
        must_raise = "step below 1 with a positive start"
    elif start > 0 and start + (count - 1) * step > MAXSEQ:
        must_raise = "last number above 4294967295"
    desc = {"class": cls, "start": start, "step": step, "count": count}
    if exc is not None:
        _bump("resequence_raises_judged")
        if not isinstance(exc, ValueError):
            FOUND.append({"what": "resequence raised an undocumented error", "detail": {**desc, "exc": repr(exc)}})
        elif must_raise is None:
            FOUND.append({"what": "resequence raised although start/step/last are in range", "detail": {**desc, "exc": str(exc)}})
        return
    _bump("resequence_returns_judged")
    if cls == "AddrGroup":
        _bump("addrgroup_resequence_judged")
    if must_raise:
        FOUND.append({"what": f"resequence returned normally although {must_raise}", "detail": {**desc, "result": result}})
        return
    flat = _flat(self.items)
    problems = []
    want = [start + n * step if start else 0 for n in range(count)]
    got = [i.sequence for i in flat]
    if got != want:
        problems.append(f"numbers {got[:12]} expected {want[:12]}")
    if result != want[-1]:
        problems.append(f"returned {result}, last number is {want[-1]}")
    if any(g > MAXSEQ for g in got):
        problems.append("a number above 4294967295 was left")
    if [id(i) for i in flat] != [id(i) for i in flat0] or [i.uuid for i in flat] != token["uuids"]:
        problems.append("items were replaced or reordered")
    if [_strip_seq(i.line) for i in flat] != token["texts"]:
        problems.append("text other than the numbers changed")
    if _shape(self.items) != token["shape"]:
        problems.append("group structure changed")
    # rendered text carries the numbers too
    lines = [i.line for i in flat]
    for line, num in zip(lines, want):
        tok = line.split()[0]
        if (num and tok != str(num)) or (not num and tok.isdigit() and cls != "AddrGroup"):
            problems.append(f"rendered line {line!r} does not start with {num or 'no number'}")
            break
    for prob in problems:
        FOUND.append({"what": "resequence did not number start, start+step, ... leaving everything else unchanged",
                      "detail": {**desc, "problem": prob}})


def install():
    from cisco_acl import AceGroup, AddrGroup  # pylint: disable=import-outside-toplevel

    taps.tap_method(AceGroup, "resequence", _post, pre=_pre)
    taps.tap_method(AddrGroup, "resequence", _post, pre=_pre)


def _drain(case, ctx):
    for item in FOUND:
        ctx.violation(case, item["what"], item["detail"])
    del FOUND[:]
    if taps.TAP_ERRORS:
        raise RuntimeError("monitor error: " + taps.TAP_ERRORS[0])


def execute(ctx, case: dict) -> None:
    from cisco_acl import Acl, AceGroup, AddrGroup  # pylint: disable=import-outside-toplevel

    platform = case["platform"]
    if case["cls"] == "Acl":
        obj = Acl(case["text"], platform=platform, group_by=case.get("group_by", ""), version=case.get("version", ""))
        if case.get("group_by") and any(type(i).__name__ == "AceGroup" for i in obj.items):
            ctx.count("grouped_shapes")
        # mixed nesting: plain items between / after the groups (list methods, no regrouping)
        from cisco_acl import Ace, Remark  # pylint: disable=import-outside-toplevel

        for pos, text in case.get("extra", []):
            new = Remark(text, platform=platform) if text.startswith("remark") else Ace(text, platform=platform)
            obj.items.insert(min(pos, len(obj.items)), new)
            ctx.count("mixed_shapes")
        if case.get("nested_acl") and len(obj.items) >= 2:
            # a block that is itself an Acl object (any AceGroup subclass is a block): its lines are lines of the outer ACL
            k = min(case["nested_acl"], len(obj.items) - 1)
            chunk = [i for i in obj.items[-k:] if type(i).__name__ in ("Ace", "Remark")]
            if len(chunk) == k:
                if k >= 2 and case.get("deep"):
                    # two levels: a group inside the nested block (numbers are removed / assigned at every depth)
                    from cisco_acl import AceGroup as _AceGroup  # pylint: disable=import-outside-toplevel

                    chunk = [_AceGroup(items=chunk[:2], platform=platform)] + chunk[2:]
                    ctx.count("two_level_nesting")
                inner = Acl(name="INNER", platform=platform, items=chunk)
                obj.items[-k:] = [inner]
                ctx.count("nested_acl_blocks")
    elif case["cls"] == "AceGroup":
        obj = AceGroup(case["text"], platform=platform)
    else:
        obj = AddrGroup(case["text"], platform=platform)
        for idx, items in case.get("nested", {}).items():
            # a group-object entry whose own members were resolved: it is still one line of this group
            if int(idx) < len(obj.items) and obj.items[int(idx)].addrgroup:
                obj.items[int(idx)].items = list(items)
                ctx.count("nested_group_members")
    for n_grp, grp in enumerate(i for i in obj.items if type(i).__name__ == "AceGroup"):
        grp.note = f"note-{n_grp}"  # user data on the blocks: resequencing has no business with it
    for start, step in case["calls"]:
        before = _client_view(obj)
        try:
            obj.resequence(start, step) if step is not None else obj.resequence(start)
            # the same observation at the client boundary (the tap sits on AceGroup.resequence; whatever a subclass does
            # around that call is seen only here)
            after = _client_view(obj)
            ctx.count("client_boundary_views_compared")
            if before != after:
                diff = [k for k in before if before[k] != after[k]]
                ctx.violation(case, "resequence changed something other than the numbers (seen at the caller's side)",
                              {"start": start, "step": step, "changed": diff,
                               "before": str([before[k] for k in diff])[:300], "after": str([after[k] for k in diff])[:300]})
        except ValueError:
            ctx.count("calls_after_a_raise")  # the partial numbering is not judged, the next call on the same object is
        except Exception:  # pylint: disable=broad-except
            break
    _drain(case, ctx)


def _start_step(rng, count: int):
    step = rng.choice([-5, 0, 1, 1, 7, 10, 10, 100, 2 ** 31, rng.randint(1, 5000), MAXSEQ - 1, MAXSEQ, MAXSEQ + 1, 2 ** 40])
    roll = rng.random()
    if roll < 0.35:
        start = rng.choice([1, 10, 10, 100, rng.randint(1, 100000)])
    elif roll < 0.45:
        start = 0
    elif roll < 0.85:
        dd = step if step >= 1 else 1
        start = MAXSEQ - (count - 1) * dd + rng.choice([-1, 0, 1, 2, -dd, dd])
    else:
        start = rng.choice([MAXSEQ, MAXSEQ + 1, -1, -5, MAXSEQ - 1])
    return start, step


def gen_cases(ctx):
    rng = ctx.rng
    while True:
        platform = rng.choice(["ios", "nxos"])
        roll = rng.random()
        if rng.random() < 0.08:
            # objects that render exactly one line: any step >= 1 is legal there (the last number is the start)
            line = grammar.gen_ace(rng, platform, "", allow_multi=False, ws=False, max_k=2, foreign=False)["text"] \
                if rng.random() < 0.7 else "remark only line"
            kind = rng.choice(["Acl", "AceGroup", "AddrGroup"])
            calls = [_start_step(rng, 1) for _ in range(rng.randint(1, 3))]
            if kind == "Acl" and rng.random() < 0.3:
                # an ACL without entries: the argument rules hold all the same
                yield {"cls": "Acl", "platform": platform, "text": grammar.acl_header(platform, "NONE"), "group_by": "",
                       "calls": [_start_step(rng, 1) for _ in range(3)], "n": 0, "extra": [], "version": ""}
            elif kind == "Acl":
                yield {"cls": "Acl", "platform": platform, "text": grammar.acl_header(platform, "ONE") + "\n " + line, "group_by": "",
                       "calls": calls, "n": 1, "extra": [], "version": ""}
            elif kind == "AceGroup":
                yield {"cls": "AceGroup", "platform": platform, "text": line, "calls": calls, "n": 1}
            else:
                header = "object-group network G1" if platform == "ios" else "object-group ip address G1"
                yield {"cls": "AddrGroup", "platform": platform, "text": header + "\n host 10.0.0.1", "calls": calls, "n": 1, "nested": {}}
            continue
        if roll < 0.7:
            heading = rng.choice([None, "= ", "== ", "#"])
            acl = grammar.gen_acl(rng, platform, headings=heading, ace_kw=dict(allow_multi=False, ws=False, max_k=2),
                                  numbered=rng.choice([True, False, False]))
            count = len(acl["items"])
            extra = []
            if heading and rng.random() < 0.6:
                for n in range(rng.randint(1, 3)):
                    extra.append([rng.randint(0, 6), rng.choice([f"permit tcp any any eq {5000 + n}", f"remark extra {n}"])])
            count += len(extra)
            calls = [_start_step(rng, count) for _ in range(rng.randint(1, 3))]
            seqs = [it["sem"]["seq"] for it in acl["items"]]
            if acl["numbered"] and not extra and count > 2 and rng.random() < 0.5 and (seqs[-1] - seqs[0]) % (count - 1) == 0:
                # the new numbering coincides with the old one at both ends (not necessarily in between)
                calls.insert(0, (seqs[0], (seqs[-1] - seqs[0]) // (count - 1)))
            yield {"cls": "Acl", "platform": platform, "text": acl["text"], "group_by": heading or "", "calls": calls,
                   "n": count, "extra": extra, "version": rng.choice(["", "", "15", "15.2(4)M3", "16.09.06"]),
                   "nested_acl": rng.choice([0, 0, 0, 0, 1, 2, 3]) if not heading else 0, "deep": rng.random() < 0.6}
        elif roll < 0.82:
            acl = grammar.gen_acl(rng, platform, ace_kw=dict(allow_multi=False, ws=False, max_k=2))
            body = "\n".join(acl["text"].split("\n")[1:])
            count = len(acl["items"])
            yield {"cls": "AceGroup", "platform": platform, "text": body, "calls": [_start_step(rng, count)], "n": count}
        else:
            from vcheck.checks.C13 import spell, rand_cube  # pylint: disable=import-outside-toplevel
            from vcheck.oracle import bits  # pylint: disable=import-outside-toplevel

            members = []
            for _ in range(rng.randint(1, 8)):
                cube = rand_cube(rng, 1)
                if not bits.is_contiguous(cube[1]) or cube[1] == bits.ALL:
                    cube = bits.cube(cube[0], (1 << rng.randint(0, 24)) - 1)
                text = spell(rng, cube, platform, "AddressAg")
                if rng.random() < 0.3:
                    text = f"{rng.randint(1, 999)} {text}"
                members.append(text)
            header = "object-group network G1" if platform == "ios" else "object-group ip address G1"
            nested = {}
            if platform == "ios" and rng.random() < 0.4:
                pos = rng.randint(0, len(members))
                members.insert(pos, "group-object " + rng.choice(["NESTED", "prod-dmz", "top"]))
                nested[str(pos)] = ["host 10.9.9.1", "10.9.8.0 255.255.255.0", "host 10.9.9.2"][:rng.randint(2, 3)]
            count = len(members)
            yield {"cls": "AddrGroup", "platform": platform, "text": header + "\n" + "\n".join(" " + m for m in members),
                   "calls": [_start_step(rng, count) for _ in range(rng.randint(1, 3))], "n": count, "nested": nested}


def _cls(val, count=1) -> str:
    if val <= 0:
        return "neg" if val < 0 else "0"
    if val > MAXSEQ:
        return ">max"
    if val >= MAXSEQ - 20000 * max(1, count):
        return "near-max"
    return "n"


def run(ctx) -> None:
    install()
    n_max = {"quick": 2500, "thorough": 40000}[ctx.tier]
    done = 0
    for case in gen_cases(ctx):
        if ctx.expired() or done >= n_max:
            break
        before = dict(STATS)
        execute(ctx, case)
        done += 1
        start, step = case["calls"][0]
        outcome = "raise" if STATS.get("resequence_raises_judged", 0) > before.get("resequence_raises_judged", 0) else "ok"
        n_judged = sum(STATS.values()) - sum(before.values())
        ctx.judged(sig=(case["cls"], case["platform"], bool(case.get("group_by")), len(case.get("extra", [])), min(case["n"], 6), _cls(start, case["n"]),
                        _cls(step), outcome, len(case["calls"])),
                   nontrivial=True, n=max(1, n_judged), sample=case if done % 200 == 1 else None)
    for key, val in STATS.items():
        ctx.count(key, val)
    ctx.count("cases", done)


def replay(ctx, case: dict) -> None:
    install()
    execute(ctx, case)
    ctx.judged(sig=("replay",))
