"""C09 Port/protocol names are pure spelling of their standard numbers (finite, enumerated completely).

Monitors: taps on PortName.names/ports and parsers._parse_dstport_option (reach + results), driver
post-conditions on Port/Protocol/Ace round trips. Oracle: oracle/names.py (hand-written numbers).
"""

from __future__ import annotations

from vcheck.monitor import taps
from vcheck.oracle import names, reader, intervals

PROPERTY = "C09"
LEVEL = "exploration"
BUDGET_S = {"quick": 50, "thorough": 900}
FLOOR = {"quick": 3000, "thorough": 100000}
MUST_REACH = ("table_entries_judged", "protocol_numbers_judged", "splitter_cases_judged", "number_roundtrips_judged", "platform_switch_histories", "config_level_renderings", "protocol_reassign_histories", "generated_line_renderings", "nested_switch_renderings", "generated_protocol_lines", "returned_tables_edited_then_asked_again", "version_family_tables_compared", "name_lists_judged")
RULE = ("complete enumeration: {asa,ios,nxos} x version strings {'', '15', '15.2(02)SY', '16.09.06', '9.3(8)'} x {tcp,udp} x "
        "every table name (name -> number vs oracle/names.py; number -> rendered name -> parsed back), every protocol "
        "number 0..255 x platform x protocol_nr x has_port and every protocol name x platform, one ACE per table name on "
        "the source and on the destination side followed by flag/log tokens (splitter), switch combinations; numbers "
        "1..65535 per table: boundaries + table numbers +-1 + random sample (quick), all 65535 (thorough). "
        "distinct non-trivial = distinct (table, name) / (platform, protocol number) / (table, number) facts judged"
        " Round 4: range_ports() enumerated over every named number x platform x side; nested switches/copies in a grouped configuration-level ACL per table."
        " Round 5: range_protocols() with a template whose sequence equals its protocol number, every protocol, both switch settings."
        " Rounds 6-7: returned tables / lists edited by the caller, then asked again."
        " Round 9: name lists in any order on the destination side; version strings of one major release select one table.")
ASSUMPTIONS = ["which names a platform/version knows is taken from the library's tables; the number of each name is judged "
               "against oracle/names.py; a table name unknown to oracle/names.py is reported as a violation (the oracle "
               "must then be extended by hand)"]

PLATFORMS = ("asa", "ios", "nxos")
VERSIONS = ("", "15", "15.2(02)SY", "16.09.06", "9.3(8)")
SPLITS = []


def _post_split(args, kwargs, result, exc, token):
    if exc is None and len(SPLITS) < 50000:
        SPLITS.append((args[0] if args else kwargs.get("line"), result))


def install():
    from cisco_acl import parsers  # pylint: disable=import-outside-toplevel

    if hasattr(parsers, "_parse_dstport_option"):
        taps.tap_function(parsers, "_parse_dstport_option", _post_split)


def _tables():
    from cisco_acl import PortName  # pylint: disable=import-outside-toplevel

    for platform in PLATFORMS:
        for version in VERSIONS:
            for proto in ("tcp", "udp"):
                yield platform, version, proto, PortName(protocol=proto, platform=platform, version=version)


def run(ctx) -> None:
    from cisco_acl import Port, Protocol, Ace  # pylint: disable=import-outside-toplevel

    install()
    rng = ctx.rng
    idx = 0

    def mine():
        nonlocal idx
        idx += 1
        return idx % ctx.nshards == ctx.shard

    all_names = set()
    tables = []
    # 0. the tables handed out belong to the caller: whatever is done to them, the next answer is the same table
    from cisco_acl import port_name as _pn  # pylint: disable=import-outside-toplevel

    for platform, version, proto, pn in _tables():
        case = {"table": [platform, version, proto], "history": "query, edit the returned object, query again"}
        for view in ("names", "ports"):
            first = getattr(pn, view)()
            snapshot = dict(first)
            first["bogus-entry" if view == "names" else 65000] = 65000 if view == "names" else "bogus-entry"
            if snapshot:
                first.pop(next(iter(snapshot)))
            for key in list(first)[:3]:
                first[key] = "changed" if view == "ports" else 1
            again = getattr(type(pn)(protocol=proto, platform=platform, version=version), view)()
            if dict(again) != snapshot:
                ctx.violation(case, f"PortName.{view}() answers differently after the caller edited an earlier answer",
                              {"diff_keys": sorted(map(str, set(again) ^ set(snapshot)))[:6]})
            ctx.count("returned_tables_edited_then_asked_again")
    # 0b. every version string of one major release selects one and the same table
    from cisco_acl import PortName as _PortName  # pylint: disable=import-outside-toplevel

    for platform, family in (("ios", ["15", "15.0(1)M", "15.2(02)SY", "15.4(3)S", "15.9(3)M", "15.9(3)M10", "15.9.3"]),
                             ("ios", ["16", "16.09.06", "16.12.4", "16.3.1a"]), ("nxos", ["9.3(8)", "9.2(1)", "9.3(10)"]),
                             ("asa", ["9.8(4)", "9.16(1)"])):
        for proto in ("tcp", "udp"):
            first = None
            for ver in family:
                try:
                    table = dict(_PortName(protocol=proto, platform=platform, version=ver).names())
                except Exception as ex:  # pylint: disable=broad-except
                    ctx.violation({"platform": platform, "version": ver}, "a version string of a known release was rejected", repr(ex))
                    continue
                if first is None:
                    first = (ver, table)
                elif table != first[1]:
                    ctx.violation({"platform": platform, "protocol": proto, "versions": [first[0], ver]},
                                  "two version strings of one major release select different name tables",
                                  {"only_in_one": sorted(set(table) ^ set(first[1]))[:8]})
                ctx.count("version_family_tables_compared")
    known = _pn.all_known_names()
    snapshot = list(known)
    try:
        known += ["eq", "any", "log", "log-input"]
        known.remove(snapshot[0])
    except (AttributeError, TypeError, ValueError):
        pass  # an immutable or lazy answer cannot be edited: fine
    if list(_pn.all_known_names()) != snapshot:
        ctx.violation({"function": "port_name.all_known_names"}, "all_known_names() answers differently after the caller edited an earlier answer",
                      {"extra": sorted(set(_pn.all_known_names()) - set(snapshot))[:6]})
    ctx.count("returned_tables_edited_then_asked_again")
    for platform, version, proto, pn in _tables():
        n2p = pn.names()
        p2n = pn.ports()
        tables.append((platform, version, proto, n2p, p2n))
        all_names.update(n2p)
    # collisions with grammar keywords
    if ctx.shard == 0:
        reserved = set(names.OPERATORS) | set(names.ADDR_WORDS) | set(names.LOG_WORDS) | set(names.ACTION_WORDS) | set(names.TCP_FLAGS)
        for name in sorted(all_names & reserved):
            ctx.violation({"name": name}, "a port name collides with an operator/address/log/flag keyword", name)
        for name in sorted(set(names.PROTO) & reserved):
            ctx.violation({"name": name}, "a protocol name collides with a keyword", name)
        ctx.judged(sig=("collisions",), n=len(all_names))

    # 1. every table entry
    for platform, version, proto, n2p, p2n in tables:
        std = names.PORT[proto]
        for name, num in sorted(n2p.items()):
            if not mine():
                continue
            case = {"table": [platform, version, proto], "name": name, "number": num}
            if name not in std:
                ctx.violation(case, "table name has no standard number in oracle/names.py", name)
            elif std[name] != num:
                ctx.violation(case, "table name maps to a non-standard number", f"{name} -> {num}, standard {std[name]}")
            kw = dict(protocol=proto, platform=platform, version=version)
            try:
                port = Port(f"eq {name}", **kw)
                if port.items != [std.get(name, num)] or port.ports != [std.get(name, num)]:
                    ctx.violation(case, "Port('eq NAME') does not denote the standard number", str(port.items))
                shown = port.line.split()[1]
                back = Port(f"eq {shown}", **kw)
                if back.items != port.items:
                    ctx.violation(case, "rendered name parses to another number", f"{shown} -> {back.items}")
                nr = Port(f"eq {name}", port_nr=True, **kw)
                if nr.line != f"eq {num}" or nr.items != port.items:
                    ctx.violation(case, "port_nr switch changed the number or left a name", nr.line)
            except Exception as ex:  # pylint: disable=broad-except
                ctx.violation(case, "a table name was rejected by Port", f"{type(ex).__name__}: {ex}")
            # history on one object: render, switch the platform, render again - the name chosen then belongs to the new platform
            for target in PLATFORMS:
                if target == platform:
                    continue
                try:
                    live = Port(f"eq {name}", **kw)
                    _ = live.line
                    live.platform = target
                    shown = live.line.split()[1]
                    back = Port(f"eq {shown}", protocol=proto, platform=target, version=version)
                    if back.items != [std.get(name, num)] or live.items != [std.get(name, num)]:
                        ctx.violation(case, "after a platform switch the rendered port does not denote the same number",
                                      f"{platform}->{target}: {name} -> {shown} -> {back.items}")
                except Exception as ex:  # pylint: disable=broad-except
                    ctx.violation(case, "after a platform switch the rendered port name is not accepted by the new platform",
                                  f"{platform}->{target}: {name}: {type(ex).__name__}: {str(ex)[:120]}")
                ctx.count("platform_switch_histories")
            ctx.count("table_entries_judged")
            ctx.judged(sig=("name", platform, version, proto, name), sample=case if idx % 97 == 0 else None)
        for num, name in sorted(p2n.items()):
            if mine():
                if n2p.get(name) != num:
                    ctx.violation({"table": [platform, version, proto], "number": num, "name": name},
                                  "ports() maps a number to a name that names() maps elsewhere", f"{num}->{name}->{n2p.get(name)}")
                ctx.judged(sig=("num2name", platform, version, proto, num))

    # 1b. the config-level functions use the table of the requested platform/version too
    import cisco_acl  # pylint: disable=import-outside-toplevel

    for platform, version, proto, n2p, p2n in tables:
        if not mine():
            continue
        nums = sorted(set(names.PORT[proto].values()))  # every number that has a name in *some* table
        body = "\n".join(f" permit {proto} any any eq {n}" for n in nums)
        head = "ip access-list T" if platform == "nxos" else "ip access-list extended T"
        cfg = f"{head}\n{body}\n"
        for func in ("acls", "aces"):
            case = {"function": func, "table": [platform, version, proto]}
            try:
                res = getattr(cisco_acl, func)(cfg, platform=platform, version=version)
                items = res[0].items if func == "acls" and res else res
            except Exception as ex:  # pylint: disable=broad-except
                ctx.violation(case, "config-level function raised on numeric ports", f"{type(ex).__name__}: {ex}")
                continue
            if len(items) != len(nums):
                ctx.violation(case, "config-level function lost entries", f"{len(items)} of {len(nums)}")
                continue
            for item, num in zip(items, nums):
                shown = item.line.split()[-1]
                if item.dstport.items != [num]:
                    ctx.violation(case, "config-level function changed a port number", f"{num} -> {item.dstport.items}")
                elif not shown.isdigit() and n2p.get(shown) != num:
                    ctx.violation(case, "config-level function renders a name that this platform/version table does not have",
                                  f"{num} -> {shown!r} (table {platform}/{version or 'default'}/{proto})")
            ctx.count("config_level_renderings")
        # grouped ACL of that platform/version: switches toggled on the *nested* objects re-render names from the same table
        cfg2 = f"{head}\n remark = block\n{body}\n"
        case = {"function": "acls+group_by, nested switches", "table": [platform, version, proto]}
        try:
            acl = cisco_acl.acls(cfg2, platform=platform, version=version, group_by="= ")[0]
            block = acl.items[0]
            nested = [i for i in block.items if type(i).__name__ == "Ace"]
            how = {0: "ace.port_nr toggled", 1: "ace.copy()", 2: "group.port_nr toggled", 3: "group.copy()"}
            for variant in range(4):
                if variant == 0:
                    for ace in nested:
                        ace.port_nr = True
                        ace.port_nr = False
                    shown_aces = nested
                elif variant == 1:
                    shown_aces = [ace.copy() for ace in nested]
                elif variant == 2:
                    block.port_nr = True
                    block.port_nr = False
                    shown_aces = [i for i in block.items if type(i).__name__ == "Ace"]
                else:
                    shown_aces = [i for i in block.copy().items if type(i).__name__ == "Ace"]
                if len(shown_aces) != len(nums):
                    ctx.violation(case, "nested switch lost entries", f"{how[variant]}: {len(shown_aces)} of {len(nums)}")
                    break
                for ace, num in zip(shown_aces, nums):
                    shown = ace.line.split()[-1]
                    if ace.dstport.items != [num]:
                        ctx.violation(case, "a switch on a nested object changed a port number", f"{how[variant]}: {num} -> {ace.dstport.items}")
                    elif not shown.isdigit() and n2p.get(shown) != num:
                        ctx.violation(case, "a nested object renders a name that this platform/version table does not have",
                                      f"{how[variant]}: {num} -> {shown!r} (table {platform}/{version or 'default'}/{proto})")
                        break
                ctx.count("nested_switch_renderings")
        except Exception as ex:  # pylint: disable=broad-except
            ctx.violation(case, "grouped configuration-level ACL raised", f"{type(ex).__name__}: {str(ex)[:200]}")
        # the line generators render names as well: same table, same numbers (one request per side)
        for side in ("srcports", "dstports") if not version else ():  # range_ports has no version parameter
            case = {"function": "range_ports", "side": side, "table": [platform, version, proto]}
            try:
                lines = cisco_acl.range_ports(**{side: ",".join(str(n) for n in nums)}, line=f"permit {proto} any any",
                                              platform=platform, port_count=1)
            except Exception as ex:  # pylint: disable=broad-except
                ctx.violation(case, "range_ports raised on numeric ports", f"{type(ex).__name__}: {ex}")
                continue
            if len(lines) != len(nums):
                ctx.violation(case, "range_ports lost or added lines", f"{len(lines)} of {len(nums)}")
                continue
            for line, num in zip(lines, nums):
                toks = line.split()
                shown = toks[toks.index("eq") + 1] if "eq" in toks else "?"
                if not shown.isdigit() and n2p.get(shown) != num:
                    ctx.violation(case, "range_ports renders a name that this platform/version table does not have",
                                  f"{num} -> {shown!r} (table {platform}/{version or 'default'}/{proto})")
                    continue
                if shown.isdigit() and int(shown) != num:
                    ctx.violation(case, "range_ports changed a port number", f"{num} -> {shown}")
                    continue
                try:
                    back = cisco_acl.Ace(line, platform=platform)
                    got = (back.srcport if side == "srcports" else back.dstport).items
                    if got != [num]:
                        ctx.violation(case, "a generated line reads back as another port", f"{line!r}: {num} -> {got}")
                except Exception as ex:  # pylint: disable=broad-except
                    ctx.violation(case, "a generated line is not accepted by the parser of the same platform/version",
                                  f"{line!r}: {type(ex).__name__}: {str(ex)[:120]}")
            ctx.count("generated_line_renderings")
            ctx.judged(sig=("range_ports", platform, proto, side), n=len(nums))
            ctx.judged(sig=("cfg", func, platform, version, proto), n=len(nums))

    # 1b'. lists of names in any order on the destination side (IOS): every name is a port, none becomes an option
    for platform, version, proto, n2p, p2n in tables:
        if platform != "ios" or not mine():
            continue
        pool = sorted(n2p)
        for _ in range(60):
            picks = rng.sample(pool, rng.choice([2, 2, 3, 5, 8]))
            tail = rng.choice(["", " log", " established"]) if proto == "tcp" else rng.choice(["", " log"])
            text = f"permit {proto} any any {rng.choice(['eq', 'neq'])} {' '.join(picks)}{tail}"
            case = {"text": text, "table": [platform, version, proto]}
            try:
                ace = Ace(text, platform=platform, version=version)
                if set(ace.dstport.items) != {n2p[n] for n in picks} or ace.option.line != tail.strip():  # (two names may share a number)
                    ctx.violation(case, "a list of table names on the destination side was not read as ports only",
                                  {"ports": ace.dstport.items, "option": ace.option.line})
            except Exception as ex:  # pylint: disable=broad-except
                ctx.violation(case, "an ACE with a list of table names was rejected", f"{type(ex).__name__}: {str(ex)[:120]}")
            ctx.count("name_lists_judged")
        ctx.judged(sig=("name-lists", version, proto), n=60)

    # 1c. generated protocol lines: the switch changes the spelling of the protocol, never a number of the line
    #     (template whose sequence number equals its own protocol number; every protocol as request)
    for platform in ("ios", "nxos"):
        for num in range(1, 256):
            if not mine():
                continue
            req = 255 - num if 255 - num != num else 0
            for nr in (False, True):
                case = {"function": "range_protocols", "platform": platform, "template_number": num, "request": req, "protocol_nr": nr}
                try:
                    lines = cisco_acl.range_protocols(protocols=str(req), line=f"{num} permit {num} any any", platform=platform,
                                                      protocol_nr=nr)
                    sem = reader.read_ace(lines[0]) if len(lines) == 1 else None
                except Exception as ex:  # pylint: disable=broad-except
                    ctx.violation(case, "range_protocols raised / rendered an unreadable line", f"{type(ex).__name__}: {str(ex)[:150]}")
                    continue
                if sem is None or sem["seq"] != num or sem["proto"] != req:
                    ctx.violation(case, "a generated protocol line changed a number (sequence or protocol) with the switch setting",
                                  {"lines": lines[:3], "expected": f"sequence {num}, protocol {req}"})
                ctx.count("generated_protocol_lines")
            ctx.judged(sig=("range_protocols", platform, num))

    # 2. protocols
    for platform in PLATFORMS:
        for num in range(256):
            if not mine():
                continue
            for protocol_nr in (False, True):
                for has_port in (False, True):
                    case = {"platform": platform, "number": num, "protocol_nr": protocol_nr, "has_port": has_port}
                    try:
                        obj = Protocol(str(num), platform=platform, protocol_nr=protocol_nr, has_port=has_port)
                        text = obj.line
                        back = Protocol(text, platform=platform, protocol_nr=protocol_nr, has_port=has_port)
                        if obj.number != num or back.number != num:
                            ctx.violation(case, "protocol number does not survive rendering", f"{num} -> {text!r} -> {back.number}")
                        if not text.isdigit() and names.PROTO.get(text) != num:
                            ctx.violation(case, "rendered protocol name is not the standard name of the number", f"{num} -> {text!r}")
                        if protocol_nr and not has_port and text != str(num):
                            ctx.violation(case, "protocol_nr switch left a name", text)
                        if obj.name and names.PROTO.get(obj.name) != num:
                            ctx.violation(case, "Protocol.name is not a standard name of the number", f"{num} -> {obj.name!r}")
                    except Exception as ex:  # pylint: disable=broad-except
                        ctx.violation(case, "protocol number rejected", f"{type(ex).__name__}: {ex}")
                    ctx.count("protocol_numbers_judged")
            ctx.judged(sig=("proto", platform, num), n=4)
        for name, std in sorted(names.PROTO.items()):
            if not mine():
                continue
            case = {"platform": platform, "name": name}
            # history on one Protocol object: reassign the line (also to the empty default) and read the views again
            try:
                live = Protocol(name, platform=platform)
                for nxt in ("", "17", "gre", "", name, "0"):
                    live.line = nxt
                    want = names.proto_number(nxt) if nxt else 0
                    shown = live.line
                    if live.number != want or (shown.isdigit() and int(shown) != want) or \
                            (not shown.isdigit() and names.PROTO.get(shown) != want) or (live.name and names.PROTO.get(live.name) != want):
                        ctx.violation(case, "after reassigning Protocol.line the views do not describe the new line",
                                      f"line={nxt!r}: number={live.number} line={shown!r} name={live.name!r}")
                        break
                ctx.count("protocol_reassign_histories")
            except ValueError:
                pass
            try:
                obj = Protocol(name, platform=platform)
            except ValueError:
                ctx.count("protocol_names_unknown_to_library")
                continue
            if obj.number != std:
                ctx.violation(case, "protocol name maps to a non-standard number", f"{name} -> {obj.number}, standard {std}")
            ctx.judged(sig=("pname", platform, name))

    # 3. splitter: every table name on source and destination side, followed by flags and log
    for platform, version, proto, n2p, p2n in tables:
        for name in sorted(all_names):
            if not mine():
                continue
            known = name in n2p
            tail = "ack log" if proto == "tcp" else "log"
            for side, pspell in (("src", proto), ("dst", proto), ("dst", "6" if proto == "tcp" else "17"), ("dst2", proto),
                                 ("dst", "006" if proto == "tcp" else "017")):
                if side == "src":
                    text = f"permit {pspell} any eq {name} any eq 1 {tail}"
                elif side == "dst2":  # the name after a numeric operand (multi-port lists on IOS) is rejected elsewhere: keep one operand
                    text = f"permit {pspell} any any neq {name} {tail}"
                else:
                    text = f"permit {pspell} any eq 1 any eq {name} {tail}"
                case = {"text": text, "platform": platform, "version": version}
                try:
                    ace = Ace(text, platform=platform, version=version)
                except ValueError:
                    if known:
                        ctx.violation(case, "an ACE using a name of this platform's table was rejected", text)
                    ctx.count("splitter_rejected_unknown_name")
                except Exception as ex:  # pylint: disable=broad-except
                    ctx.violation(case, "undocumented exception", f"{type(ex).__name__}: {ex}")
                else:
                    port = ace.srcport if side == "src" else ace.dstport
                    other = ace.dstport if side == "src" else ace.srcport
                    if side == "dst2":
                        other = type("P", (), {"items": [1]})()
                    want = names.PORT[proto].get(name)
                    if name in ace.option.flags or name in ace.option.line.split():
                        ctx.violation(case, "a port name was treated as an option", ace.option.line)
                    if not known:
                        ctx.count("names_accepted_outside_table")
                    if port.items != [want] or other.items != [1]:
                        ctx.violation(case, "named port parsed to wrong numbers", f"{port.items} {other.items}")
                    if ace.option.line != tail:
                        ctx.violation(case, "option tokens after a named port were lost", ace.option.line)
                    # switches change text only
                    for port_nr, protocol_nr in ((True, False), (False, True), (True, True)):
                        alt = Ace(text, platform=platform, version=version, port_nr=port_nr, protocol_nr=protocol_nr)
                        if (alt.protocol.number, alt.srcport.ports, alt.dstport.ports) != (ace.protocol.number, ace.srcport.ports, ace.dstport.ports):
                            ctx.violation(case, "numeric/name switch changed a number", alt.line)
                        if port_nr and any(not t.isdigit() for p in (alt.srcport.line, alt.dstport.line) for t in p.split()[1:]):
                            ctx.violation(case, "port_nr left a port name", alt.line)
                        try:
                            sem = reader.read_ace(alt.line)
                            base = reader.read_ace(ace.line)
                            if reader.meaning(sem) != reader.meaning(base):
                                ctx.violation(case, "switch changed the meaning of the rendered line", alt.line)
                        except reader.ReadError as ex:
                            ctx.violation(case, "rendered line unreadable", f"{alt.line!r}: {ex}")
                ctx.count("splitter_cases_judged")
            ctx.judged(sig=("split", platform, version, proto, name), n=4)

    # 4. numbers: rendered name is accepted back and maps to the same number
    thorough = ctx.tier == "thorough"
    for platform, version, proto, n2p, p2n in tables:
        if thorough:
            pool = range(1, 65536)
        else:
            pool = {1, 2, 65534, 65535}
            for num in n2p.values():
                pool.update({max(1, num - 1), num, min(65535, num + 1)})
            pool.update(rng.randint(1, 65535) for _ in range(2500))
            pool = sorted(pool)
        kw = dict(protocol=proto, platform=platform, version=version)
        for num in pool:
            if not mine():
                continue
            if ctx.expired():
                break
            case = {"table": [platform, version, proto], "number": num}
            try:
                port = Port(f"eq {num}", **kw)
                shown = port.line.split()[1]
                if not shown.isdigit():
                    back = Port(f"eq {shown}", **kw)
                    if back.items != [num]:
                        ctx.violation(case, "rendered name of a number parses to another number", f"{num} -> {shown} -> {back.items}")
                    if names.PORT[proto].get(shown) != num:
                        ctx.violation(case, "rendered name is not a standard name of the number", f"{num} -> {shown}")
                if port.items != [num] or Port(f"eq {num}", port_nr=True, **kw).line != f"eq {num}":
                    ctx.violation(case, "number does not survive", str(port.items))
            except Exception as ex:  # pylint: disable=broad-except
                ctx.violation(case, "port number rejected", f"{type(ex).__name__}: {ex}")
            ctx.count("number_roundtrips_judged")
            ctx.judged(sig=("nr", platform, version, proto, num), nontrivial=True)
    ctx.count("splitter_calls_observed", len(SPLITS))
    for line, result in SPLITS:
        # every token of the input is in exactly one of the two parts, in order
        if (result["dstport"] + " " + result["option"]).split() != line.split():
            ctx.violation({"line": line}, "dstport/option splitter lost or reordered tokens", result)
    ctx.extra["exhaustive_names"] = True


def merge_extra(extras: list) -> dict:
    return {"exhaustive": all(e.get("exhaustive_names") for e in extras),
            "explanation": "names, protocol numbers/names and splitter cases are enumerated completely in both tiers; "
                           "port numbers 1..65535 completely in the thorough tier, sampled in the quick tier"}


def replay(ctx, case: dict) -> None:
    """The space is enumerated completely: replay re-runs the enumeration and keeps findings of this case."""
    ctx.nshards, ctx.shard = 1, 0
    ctx.tier = "quick"
    run(ctx)
    keep = [v for v in ctx.violations if v["case"] == case]
    ctx.violations[:] = keep
