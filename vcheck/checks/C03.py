"""C03 Shadow detection is sound: a reported shadow is really covered.

Monitor: post-condition tap on every Ace.shadow_of call - the dedicated pairs and every call the
library makes itself inside Acl.shading()/delete_shadow() (ambient). Oracle: exact product-set
containment with member cubes read from the public views; skip monotonicity over all orderings of
all subsets of the two skip options.
"""

from __future__ import annotations

from vcheck.checks import shadow_common as sc
from vcheck.monitor import taps

PROPERTY = "C03"
LEVEL = "exploration"
BUDGET_S = {"quick": 50, "thorough": 700}
FLOOR = {"quick": 4000, "thorough": 40000}
MUST_REACH = ("shadow_of_calls_judged", "true_answers_judged", "ambient_calls_judged", "grouped_pairs", "skip_settings_compared",
              "member_mutations_then_requery", "acl_reports_judged")
RULE = ("related ordered pairs (top, bottom): the bottom is derived field by field from the top (same / narrowed / widened / "
        "unrelated addresses, contained or unrelated port expressions incl. lt 1 and gt 65535, flag subsets, log tokens, "
        "same or other action and protocol, named and unnamed protocol numbers), query - change group members in place - query again histories, address groups with 1..4 arbitrary members (also non-contiguous) on either "
        "side, both platforms; each pair is evaluated under None and every ordering of every subset of {addrgroup, "
        "nc_wildcard}; plus small-world ACLs whose shading() drives shadow_of internally (ambient). judged = monitor "
        "evaluations of Ace.shadow_of; distinct non-trivial = (platform, protocol relation, address kinds, port "
        "operators, flag relation, answer, truth) with a True answer or a contained pair"
        " Round 4: the meaning of an entry is read from the line it renders (independent reader) wherever the text carries it; histories edit option/port/address through the sub-object and ask again."
        " Round 5: pairs in which the bottom is a rebuild of the top with its uuid that then got its own text."
        " Rounds 6-7: mixed kinds (standard entry on one side); sibling three-port neq lists; log keyword before flags."
        " Round 9: operand 0 in port expressions; the default asked again after skip calls.")
ASSUMPTIONS = ["flag lists are Cisco's legacy any-of lists (pinned by tests/test__ace.py)",
               "a group without attached members denotes no address; shadow answers with it must be False"]

FOUND = []
STATS = {}
MODE = {"exact": False, "ambient": False}


def _bump(name, n=1):
    STATS[name] = STATS.get(name, 0) + n


def _post_shadow_of(self, args, kwargs, result, exc, token):
    if exc is not None:
        return
    other = kwargs.get("other", args[0] if args else None)
    skip = kwargs.get("skip", args[1] if len(args) > 1 else None)
    bottom = sc.ace_obj_meaning(self)
    top = sc.ace_obj_meaning(other)
    _bump("shadow_of_calls_judged")
    if MODE["ambient"]:
        _bump("ambient_calls_judged")
    if bottom["outside"] or top["outside"]:
        _bump("outside_quantifier")
        return
    truth = sc.truth(bottom, top)
    if result:
        _bump("true_answers_judged")
        if not truth:
            why = "actions differ" if bottom["action"] != top["action"] else "the bottom matches packets the top does not"
            FOUND.append({"what": "shadow_of answered True but the entry is not covered: " + why,
                          "detail": {"bottom": bottom["line"], "top": top["line"], "skip": skip,
                                     "bottom_members": _members(self), "top_members": _members(other)}})
    else:
        _bump("false_answers_judged")
    if MODE["exact"]:
        if sc.exact_domain(bottom) and sc.exact_domain(top):
            if sc.full_cover_corner(bottom, top):
                _bump("full_cover_corner_not_judged")
                return
            want = truth and not sc.skipped(bottom, top, skip)
            _bump("exact_answers_judged")
            if want:
                _bump("exact_positive")
            if bool(result) != want:
                FOUND.append({"what": f"shadow_of answered {bool(result)} on group-free entries, exact answer is {want}",
                              "detail": {"bottom": bottom["line"], "top": top["line"], "skip": skip,
                                         "contained": truth, "skipped_kind_involved": sc.skipped(bottom, top, skip)}})


def _members(ace):
    return {"src": [i.line for i in ace.srcaddr.items][:6], "dst": [i.line for i in ace.dstaddr.items][:6]}


def _flat_aces(items):
    out = []
    for item in items:
        if type(item).__name__ == "AceGroup":
            out.extend(_flat_aces(item.items))
        elif type(item).__name__ == "Ace":
            out.append(item)
    return out


def _pre_report(self, args, kwargs):
    from vcheck.checks.C11 import _canon  # pylint: disable=import-outside-toplevel

    return [(_canon(a.line), sc.ace_obj_meaning(a)) for a in _flat_aces(self.items)]


def _post_report(self, args, kwargs, result, exc, token):
    """Every (top -> bottom) pair of the ACL-level report is a true cover in the ACL the caller holds."""
    from vcheck.checks.C11 import _canon  # pylint: disable=import-outside-toplevel

    if exc is not None or token is None:
        return
    _bump("acl_reports_judged")
    aces = token
    for top_text, bottoms in dict(result).items():
        for bot_text in bottoms:
            _bump("acl_report_pairs_judged")
            ok = False
            for i, (tline, top) in enumerate(aces):
                if tline != _canon(top_text) or top["outside"]:
                    continue
                for bline, bot in aces[i + 1:]:
                    if bline == _canon(bot_text) and not bot["outside"] and sc.truth(bot, top):
                        ok = True
                        break
                if ok:
                    break
            if not ok and not any(m["outside"] for _, m in aces):
                FOUND.append({"what": "the ACL-level report lists an entry as shadowed that is not covered in the caller's ACL",
                              "detail": {"top": top_text, "bottom": bot_text, "acl": [ln for ln, _ in aces][:14]}})


def install():
    from cisco_acl import Ace, Acl  # pylint: disable=import-outside-toplevel

    taps.tap_method(Ace, "shadow_of", _post_shadow_of)
    taps.tap_method(Acl, "shading", _post_report, pre=_pre_report)


def _drain(case, ctx):
    for item in FOUND:
        ctx.violation(case, item["what"], item["detail"])
    del FOUND[:]
    if taps.TAP_ERRORS:
        raise RuntimeError("monitor error: " + taps.TAP_ERRORS[0])


def execute(ctx, case: dict) -> None:
    from cisco_acl import Acl  # pylint: disable=import-outside-toplevel

    platform = case["platform"]
    if case["k"] == "pair":
        MODE["ambient"] = False
        kw = case.get("kwargs", {})
        top = sc.build_ace(case["top"], platform, **kw)
        bottom = sc.build_ace(case["bottom"], platform, **kw)
        if case.get("standard") and platform == "ios":
            # mixed kinds: one side is a standard entry (source address only, any protocol, any destination)
            from cisco_acl import Ace  # pylint: disable=import-outside-toplevel

            who = case["standard"]
            desc = case[who]
            if not desc.get("src_items") and "object-group" not in desc["src"] and "/" not in desc["src"]:
                try:
                    std = Ace(f"{desc['action']} {desc['src']}", platform="ios", type="standard", max_ncwb=20)
                    if who == "top":
                        top = std
                    else:
                        bottom = std
                    ctx.count("pairs_with_a_standard_entry")
                except (ValueError, TypeError):
                    pass
        if case.get("twin"):
            # the bottom starts its life as a rebuild of the top *with its uuid* (Ace(**top.data(uuid=True))) and is then
            # given its own text and members: two different entries that carry one identifier
            from cisco_acl import Ace  # pylint: disable=import-outside-toplevel

            try:
                twin = Ace(**top.data(uuid=True))
                twin.line = bottom.line
                if case["bottom"].get("src_items"):
                    twin.srcaddr.items = list(case["bottom"]["src_items"])
                if case["bottom"].get("dst_items"):
                    twin.dstaddr.items = list(case["bottom"]["dst_items"])
                if twin.uuid == top.uuid and twin.line == bottom.line:
                    bottom = twin
                    ctx.count("pairs_sharing_one_uuid")
            except (ValueError, TypeError):
                pass
        answers = {}
        for skip in sc.SKIP_SETS:
            try:
                answers[repr(skip)] = bool(bottom.shadow_of(top, skip=skip) if skip is not None else bottom.shadow_of(top))
            except Exception as ex:  # pylint: disable=broad-except
                ctx.violation(case, "shadow_of raised on valid entries", f"{type(ex).__name__}: {ex}")
                _drain(case, ctx)
                return
        # the same object asked again without skip after the calls with skip options: the first answer again
        try:
            again = bool(bottom.shadow_of(top))
            again_empty = bool(bottom.shadow_of(top, skip=[]))
        except Exception as ex:  # pylint: disable=broad-except
            ctx.violation(case, "shadow_of raised on valid entries", f"{type(ex).__name__}: {ex}")
            _drain(case, ctx)
            return
        ctx.count("default_asked_again_after_skips")
        if again != answers[repr(None)] or again_empty != answers[repr([])]:
            ctx.violation(case, "the answer without skip options changed after calls with skip options on the same objects",
                          {"first": answers[repr(None)], "again": again, "again_empty_list": again_empty})
        # adding skip options can only turn answers from True to False; order must not matter
        base = answers[repr(None)]
        if answers[repr([])] != base:
            ctx.violation(case, "skip=[] differs from skip=None", answers)
        if answers[repr(["addrgroup", "nc_wildcard"])] != answers[repr(["nc_wildcard", "addrgroup"])]:
            ctx.violation(case, "the order of skip options changes the answer", answers)
        for sub, sup in ((repr([]), repr(["addrgroup"])), (repr([]), repr(["nc_wildcard"])),
                         (repr(["addrgroup"]), repr(["addrgroup", "nc_wildcard"])),
                         (repr(["nc_wildcard"]), repr(["addrgroup", "nc_wildcard"])),
                         (repr(["nc_wildcard"]), repr(["nc_wildcard", "addrgroup"])),
                         (repr(["addrgroup"]), repr(["nc_wildcard", "addrgroup"]))):
            ctx.count("skip_settings_compared")
            if answers[sup] and not answers[sub]:
                ctx.violation(case, "adding a skip option turned an answer from False to True",
                              {"with": sup, "without": sub, "answers": answers})
        case["_answer"] = base
        # history: change the members of a group in place, then ask again (a stale expansion would answer for the old members)
        for mut in case.get("muts", []):
            from cisco_acl import Address  # pylint: disable=import-outside-toplevel

            ace = top if mut["who"] == "top" else bottom
            if mut["op"] in ("option", "srcport", "dstport", "addr"):
                # a field edited through its sub-object: the entry now is what it renders
                try:
                    if mut["op"] == "option":
                        ace.option.line = mut["text"]
                    elif mut["op"] == "addr":
                        sub = ace.srcaddr if mut["side"] == "src" else ace.dstaddr
                        if sub.addrgroup:
                            continue
                        sub.line = mut["text"]
                    else:
                        sub = getattr(ace, mut["op"])
                        if not sub.operator:
                            continue  # a Port built without expression has no protocol and hides what is assigned (C19 note)
                        sub.line = mut["text"]
                except (ValueError, TypeError):
                    continue
                ctx.count("subobject_edits_then_requery")
                try:
                    bottom.shadow_of(top)
                    top.shadow_of(bottom)
                    bottom.shadow_of(top, skip=["addrgroup"])
                except Exception as ex:  # pylint: disable=broad-except
                    ctx.violation(case, "shadow_of raised after a field was edited through its sub-object", f"{type(ex).__name__}: {ex}")
                continue
            addr = ace.srcaddr if mut["side"] == "src" else ace.dstaddr
            if not addr.addrgroup:
                continue
            try:
                if mut["op"] == "append":
                    addr.items.append(Address(mut["text"], platform=platform, max_ncwb=20))
                elif mut["op"] == "pop" and len(addr.items) > 1:
                    addr.items.pop(mut.get("idx", -1) % len(addr.items))
                elif mut["op"] == "line" and addr.items:
                    addr.items[mut.get("idx", 0) % len(addr.items)].line = mut["text"]
                else:
                    continue
            except (ValueError, TypeError):
                continue
            ctx.count("member_mutations_then_requery")
            try:
                bottom.shadow_of(top)
                bottom.shadow_of(top, skip=["nc_wildcard"])
            except Exception as ex:  # pylint: disable=broad-except
                ctx.violation(case, "shadow_of raised after an in-place member change", f"{type(ex).__name__}: {ex}")
    else:  # ambient: ACL-level shading drives shadow_of internally
        MODE["ambient"] = True
        acl = Acl(case["text"], platform=platform, max_ncwb=20, **case.get("kwargs", {}))
        for idx, members in case.get("members", {}).items():
            item = acl.items[int(idx)]
            if members.get("src"):
                item.srcaddr.items = list(members["src"])
            if members.get("dst"):
                item.dstaddr.items = list(members["dst"])
        try:
            acl.shading(case.get("skip"))
        except Exception as ex:  # pylint: disable=broad-except
            ctx.violation(case, "shading raised on a valid ACL", f"{type(ex).__name__}: {ex}")
        MODE["ambient"] = False
    _drain(case, ctx)


def gen_acl_case(rng, platform, groups=True, n=None):
    """A small-world ACL as text + member attachments (index -> items)."""
    from vcheck.gen import grammar  # pylint: disable=import-outside-toplevel

    n = n or rng.randint(2, 10)
    lines = []
    members = {}
    descs = []
    table = {}
    while len(lines) < n:
        if descs and rng.random() < 0.5:
            pair = sc.gen_related_pair(rng, platform, groups=groups, small=sc.SMALL)
            pair["top"] = rng.choice(descs)
            desc = sc.gen_related_pair(rng, platform, groups=groups, small=sc.SMALL)["bottom"]
        else:
            desc = sc.gen_related_pair(rng, platform, groups=groups, small=sc.SMALL)["top"]
        if descs and rng.random() < 0.15:
            desc = dict(rng.choice(descs))
        desc = dict(desc)
        sc.unify_groups([desc], table)
        descs.append(desc)
        idx = len(lines)
        lines.append(sc.compose(desc, platform))
        if desc.get("src_items") or desc.get("dst_items"):
            members[str(idx)] = {"src": desc.get("src_items"), "dst": desc.get("dst_items")}
    text = grammar.acl_header(platform, "SW") + "\n" + "\n".join("  " + ln for ln in lines)
    return {"k": "acl", "platform": platform, "text": text, "members": members,
            "skip": rng.choice([None, None, ["addrgroup"], ["nc_wildcard"], ["addrgroup", "nc_wildcard"]])}


def _pair_sig(case) -> tuple:
    top, bot = case["top"], case["bottom"]

    def akind(text, items):
        if items:
            return "grp"
        if text == "any":
            return "any"
        if text.startswith("host") or text.endswith(" 0.0.0.0") or text.endswith("/32"):
            return "host"
        return "net"

    return (case["platform"], top["proto"], bot["proto"] == top["proto"], top["action"] == bot["action"],
            akind(top["src"], top.get("src_items")), akind(bot["src"], bot.get("src_items")),
            akind(top["dst"], top.get("dst_items")), akind(bot["dst"], bot.get("dst_items")),
            (top.get("sport") or "-").split()[0], (bot.get("sport") or "-").split()[0],
            (top.get("dport") or "-").split()[0], (bot.get("dport") or "-").split()[0],
            len(top.get("flags") or []), len(bot.get("flags") or []), case.get("_answer"))


def run(ctx, exact: bool = False, groups: bool = True) -> None:
    install()
    MODE["exact"] = exact
    rng = ctx.rng
    n_max = {"quick": 2500, "thorough": 40000}[ctx.tier]
    done = 0
    while done < n_max and not ctx.expired():
        platform = rng.choice(["ios", "nxos"])
        before = STATS.get("shadow_of_calls_judged", 0)
        if rng.random() < 0.8:
            pair = sc.gen_related_pair(rng, platform, groups=groups, small=sc.SMALL if rng.random() < 0.3 else None)
            case = {"k": "pair", "platform": platform, **pair}
            if rng.random() < 0.35:
                case["kwargs"] = {"port_nr": rng.random() < 0.5, "protocol_nr": rng.random() < 0.7}
            if rng.random() < 0.12:
                case["twin"] = True
            elif platform == "ios" and rng.random() < 0.08:
                case["standard"] = rng.choice(["top", "bottom", "bottom"])
            if rng.random() < 0.04 and case["top"]["proto"] in (6, 17):
                # operand 0: 'lt 0' matches no port at all, 'gt 0' every port (on either entry)
                who = rng.choice(["top", "top", "bottom"])
                if case[who]["proto"] in (6, 17):
                    case[who] = dict(case[who], **{rng.choice(["sport", "dport"]): rng.choice(["lt 0", "lt 0", "gt 0", "range 0 5"])})
            if platform == "ios" and rng.random() < 0.05 and case["top"]["proto"] in (6, 17):
                # both entries carry a three-port neq list with the same lowest and highest port, other middle port
                lo = rng.randint(1, 60000)
                hi = lo + rng.randint(4, 50)
                m1, m2 = rng.sample(range(lo + 1, hi), 2)
                case["bottom"] = dict(case["top"], dport=f"neq {lo} {m2} {hi}", log="", flags=list(case["top"].get("flags") or []))
                case["top"] = dict(case["top"], dport=f"neq {lo} {m1} {hi}")
                for key in ("src_items", "dst_items"):
                    if case["top"].get(key):
                        case["bottom"][key] = list(case["top"][key])
            grouped = [(w, sd) for w in ("top", "bottom") for sd in ("src", "dst") if case[w].get(sd + "_items")]
            if grouped and rng.random() < 0.6:
                from vcheck.checks.C13 import rand_cube, spell  # pylint: disable=import-outside-toplevel

                muts = []
                for _ in range(rng.randint(1, 3)):
                    who, side = rng.choice(grouped)
                    cube = rand_cube(rng, 2) if rng.random() < 0.5 else sc._small_cube(rng, sc.SMALL)
                    muts.append({"who": who, "side": side, "op": rng.choice(["append", "pop", "line", "line"]),
                                 "idx": rng.randrange(4), "text": spell(rng, cube, platform, "Address")})
                case["muts"] = muts
            if rng.random() < 0.3:
                from vcheck.checks.C13 import rand_cube, spell  # pylint: disable=import-outside-toplevel

                edits = []
                for _ in range(rng.randint(1, 3)):
                    op = rng.choice(["option", "option", "srcport", "dstport", "addr"])
                    text = {"option": rng.choice(["", "", "ack", "syn", "log", "ack syn", "established"]),
                            "srcport": rng.choice(["eq 80", "range 1 1024", "gt 1023", "neq 22", "lt 3"]),
                            "dstport": rng.choice(["eq 80", "range 1 1024", "gt 1023", "neq 22", "eq 443"]),
                            "addr": spell(rng, sc._small_cube(rng, sc.SMALL) if rng.random() < 0.5 else rand_cube(rng, 2), platform, "Address")}[op]
                    edits.append({"who": rng.choice(["top", "bottom"]), "side": rng.choice(["src", "dst"]), "op": op, "text": text})
                case["muts"] = case.get("muts", []) + edits
            execute(ctx, case)
            if grouped:
                ctx.count("grouped_pairs")
            ans = case.pop("_answer", None)
            case["_answer"] = ans
            sig = _pair_sig(case)
            case.pop("_answer", None)
            ctx.judged(sig=sig, nontrivial=True, n=max(1, STATS.get("shadow_of_calls_judged", 0) - before),
                       sample=case if ans and done % 40 == 0 else None)
        else:
            case = gen_acl_case(rng, platform, groups=groups)
            if rng.random() < 0.35:
                case["kwargs"] = {"port_nr": rng.random() < 0.5, "protocol_nr": rng.random() < 0.7}
            execute(ctx, case)
            ctx.judged(sig=("acl", platform, case["text"].count("\n"), bool(case["members"]), repr(case["skip"])),
                       nontrivial=True, n=max(1, STATS.get("shadow_of_calls_judged", 0) - before))
        done += 1
    for key, val in STATS.items():
        ctx.count(key, val)
    ctx.count("cases", done)
    ctx.count("fields_taken_from_text_because_object_disagreed", sc.TEXT_VIEW["overrides"])


def replay(ctx, case: dict) -> None:
    install()
    execute(ctx, case)
    ctx.judged(sig=("replay",))
