"""C08 Port operators denote exactly the Cisco port sets; views write back losslessly.

Monitors: invariant tap after every Port.line assignment (all construction and write-back paths end
there), icontract post-conditions on helpers.ports_to_string / string_to_ports; driver-side
post-conditions on write-back histories. Oracle: interval algebra + own range-string codec.
"""

from __future__ import annotations

from vcheck.gen import grammar
from vcheck.monitor import taps
from vcheck.oracle import intervals, names, reader

PROPERTY = "C08"
LEVEL = "exploration"
BUDGET_S = {"quick": 50, "thorough": 900}
FLOOR = {"quick": 2000, "thorough": 20000}
MUST_REACH = ("invariant_evaluations", "writebacks_judged", "codec_contract_evaluations", "reassignments_judged")
RULE = ("port expressions: 5 operators x operands from boundaries {1,2,65534,65535}, table numbers +-1, uniform 1..65535 "
        "and names; eq/neq with 1..10 distinct operands (IOS) or 1 (NX-OS); range in both operand orders incl. a=b and "
        "windows straddling powers of two; empty denotations lt 1 / gt 65535; thorough: gt N and lt N for every N in "
        "1..65535; codec on random unions of intervals incl. empty, {1}, {65535}, full; write-back histories of length "
        "1..6 over items/ports/sport. judged = invariant-monitor evaluations + write-backs + codec contract "
        "evaluations; distinct non-trivial = (operator, #operands, boundary class, history shape)"
        " Round 4: repeated operands / list values (set-only judgement); sport read before ports on every second monitor evaluation."
        " Round 5: expressions built without a protocol; sibling expressions (same operator, count, lowest, highest operand)."
        " Rounds 6-7: repeated operands in neq lists."
        " Round 9: operands 1023/1024/49151/49152; neq lists holding both boundaries with sport write-back.")
ASSUMPTIONS = ["eq/neq operand lists are distinct for the text clauses; with repeated operands ('eq 5 5 7') only the denoted set is judged",
               "operands outside 1..65535 are outside the quantifier"]

FOUND = []
STATS = {"inv": 0, "codec": 0}


class CodecBroken(Exception):
    """icontract post-condition of the range-string codec failed."""


def _on_line_set(self, value, exc, token):
    """Invariant: ports == Cisco set of (operator, items); sport == canonical string; decode(sport) == set."""
    if exc is not None:
        return
    STATS["inv"] += 1
    op, items = self.operator, list(self.items)
    if not op:
        if self.ports or self.sport or items:
            FOUND.append({"what": "Port without operator keeps ports", "detail": repr(self.data())[:300]})
        return
    if any(not (isinstance(i, int) and 1 <= i <= 65535) for i in items):
        return  # outside the quantifier
    want = intervals.from_operator(op, items)
    # the views are read in alternating order: a view computed on demand must not depend on which one is asked first
    if STATS["inv"] % 2:
        first_sport = self.sport
        got = intervals.from_ints(self.ports)
    else:
        got = intervals.from_ints(self.ports)
        first_sport = self.sport
    problems = []
    if first_sport != self.sport:
        problems.append(f"sport read before ports {first_sport[:40]!r} differs from sport read after {self.sport[:40]!r}")
    try:
        if intervals.decode(first_sport) != want:
            problems.append(f"sport {first_sport[:60]!r} (read before ports) does not decode to the set")
    except ValueError:
        problems.append(f"sport {first_sport[:60]!r} is not decodable")
    if got != want:
        problems.append(f"ports {intervals.encode(got)!r} != Cisco set {intervals.encode(want)!r}")
    dup = len(set(items)) != len(items)  # repeated operands: only the denoted *set* is judged (ASSUMPTIONS)
    if dup:
        STATS["dup"] = STATS.get("dup", 0) + 1
    if not dup and len(self.ports) != intervals.size(got):
        problems.append("duplicates in ports")
    if not dup and self.sport != intervals.encode(want):
        problems.append(f"sport {self.sport[:60]!r} != canonical {intervals.encode(want)[:60]!r}")
    try:
        if intervals.decode(self.sport) != want:
            problems.append(f"sport {self.sport[:60]!r} does not decode to the set")
    except ValueError:
        problems.append(f"sport {self.sport[:60]!r} is not decodable")
    for prob in problems:
        FOUND.append({"what": "port views disagree with the Cisco meaning of (operator, operands)",
                      "detail": {"operator": op, "items": items[:12], "problem": prob}})


def _pts_ok(items, result) -> bool:
    STATS["codec"] += 1
    try:
        ints = [int(i) for i in items]
    except (TypeError, ValueError):
        return True  # not a list of ports: outside the codec's contract (whoever passed it is judged by the invariant tap)
    want = intervals.from_ints(ints)
    ok = result == intervals.encode(want)
    if not ok and len(set(ints)) != len(ints):  # repeated values: any string that decodes to the set
        try:
            ok = intervals.decode(result) == want
        except ValueError:
            ok = False
    if not ok:
        FOUND.append({"what": "ports_to_string does not encode exactly the given set",
                      "detail": {"items": list(items)[:20], "result": result[:80]}})
    return True


def _stp_ok(ports, result) -> bool:
    STATS["codec"] += 1
    try:
        want = intervals.clip(intervals.decode(ports))
    except ValueError:
        return True
    if intervals.from_ints(result) != want or len(result) != intervals.size(want):
        FOUND.append({"what": "string_to_ports does not decode exactly the encoded set",
                      "detail": {"ports": ports[:80], "result": list(result)[:20]}})
    return True


def install():
    import icontract  # pylint: disable=import-outside-toplevel
    from cisco_acl import Port, helpers  # pylint: disable=import-outside-toplevel

    taps.tap_property(Port, "line", on_set=_on_line_set)
    pts = icontract.ensure(_pts_ok, error=CodecBroken)(helpers.ports_to_string)
    stp = icontract.ensure(_stp_ok, error=CodecBroken)(helpers.string_to_ports)
    taps.replace_function(helpers, "ports_to_string", pts)
    taps.replace_function(helpers, "string_to_ports", stp)


def _drain(case, ctx):
    for item in FOUND:
        ctx.violation(case, item["what"], item["detail"])
    del FOUND[:]
    if taps.TAP_ERRORS:
        raise RuntimeError("monitor error: " + taps.TAP_ERRORS[0])


def execute(ctx, case: dict) -> None:
    from cisco_acl import Port, helpers  # pylint: disable=import-outside-toplevel

    kind = case["k"]
    if kind == "codec":
        iset = tuple(tuple(p) for p in case["set"])
        ints = intervals.to_ints(iset)
        if case.get("shuffle"):
            import random  # pylint: disable=import-outside-toplevel

            random.Random(case["shuffle"]).shuffle(ints)
        if case.get("dup") and ints:
            import random  # pylint: disable=import-outside-toplevel

            rnd = random.Random(case["dup"])
            holes = (max(ints) - min(ints) + 1) - len(set(ints))
            # as many repeats as the set has holes (length == span, looks contiguous by count alone), or 1..3
            for _ in range(holes if 0 < holes <= 6 and case["dup"] % 2 else rnd.randint(1, 3)):
                ints.insert(rnd.randrange(len(ints) + 1), rnd.choice(ints))
            ctx.count("codec_lists_with_repeated_values")
        try:
            text = helpers.ports_to_string(ints)
            back = helpers.string_to_ports(intervals.encode(iset))
            if intervals.from_ints(back) != iset:
                ctx.violation(case, "codec round trip lost ports", {"back": back[:20]})
            # the result belongs to the caller: change it in place, decode the same string again
            back.append(4242)
            if back:
                back.pop(0)
            again = helpers.string_to_ports(intervals.encode(iset))
            ctx.count("decoded_list_mutated_then_decoded_again")
            if intervals.from_ints(again) != iset:
                ctx.violation(case, "decoding the same string again is influenced by what the caller did with the first result",
                              {"string": intervals.encode(iset)[:60], "second": again[:12]})
            if text != intervals.encode(iset) and not case.get("dup"):
                ctx.violation(case, "ports_to_string is not the canonical encoding", {"text": text[:80]})
            if case.get("dup") and intervals.decode(text) != iset:
                ctx.violation(case, "ports_to_string of a list with repeated values encodes another set", {"text": text[:80]})
        except Exception as ex:  # pylint: disable=broad-except
            ctx.violation(case, "codec raised", f"{type(ex).__name__}: {ex}")
        _drain(case, ctx)
        return

    text, proto, platform, version = case["text"], case["proto"], case["platform"], case.get("version", "")
    want = reader.read_port(text.split(), 0, 6 if proto == "tcp" else 17)[0]
    try:
        port = Port(text, protocol=proto, platform=platform, version=version, port_nr=case.get("port_nr", False))
    except Exception as ex:  # pylint: disable=broad-except
        ctx.violation(case, "a valid port expression was rejected", f"{type(ex).__name__}: {ex}")
        _drain(case, ctx)
        return
    wset = want[2]
    problems = []
    if port.operator != want[0]:
        problems.append(f"operator {port.operator!r} != {want[0]!r}")
    if intervals.from_ints(port.ports) != wset:
        problems.append(f"ports {port.sport[:60]!r} != Cisco set {intervals.encode(wset)[:60]!r}")
    dup = bool(case.get("dups"))
    if not dup and port.sport != intervals.encode(wset):
        problems.append(f"sport {port.sport[:60]!r} != {intervals.encode(wset)[:60]!r}")
    if dup:
        ctx.count("expressions_with_repeated_operands")
        try:
            if intervals.decode(port.sport) != wset:
                problems.append(f"sport {port.sport[:60]!r} does not decode to {intervals.encode(wset)[:60]!r}")
        except ValueError:
            problems.append(f"sport {port.sport[:60]!r} is not decodable")
    line0 = port.line
    if not proto:
        # an expression built without a protocol renders nothing, but its operator / operands / ports / range string are live
        ctx.count("expressions_without_protocol")
        if port.operator != want[0] or sorted(port.items) != sorted(want[1]):
            problems.append(f"operator/operands {port.operator!r} {port.items} != {want[0]!r} {list(want[1])}")
    else:
        try:
            again = reader.read_port(line0.split(), 0, 6 if proto == "tcp" else 17)[0]
            if again is None or again[2] != wset or again[0] != want[0]:
                problems.append(f"rendered {line0!r} means {again and intervals.encode(again[2])[:60]!r}")
        except reader.ReadError as ex:
            problems.append(f"rendered {line0!r} unreadable: {ex}")
    for prob in problems:
        ctx.violation(case, "port expression does not denote the Cisco port set", prob)
    # reassignment history: the same object gets other expressions; the invariant tap judges every assignment
    for other in case.get("reassign", []):
        try:
            port.line = other
        except (ValueError, TypeError):
            continue
        ctx.count("reassignments_judged")
        want2 = reader.read_port(other.split(), 0, 6 if proto == "tcp" else 17)[0]
        if want2 is not None and (intervals.from_ints(port.ports) != want2[2] or port.sport != intervals.encode(want2[2])):
            ctx.violation(case, "after reassigning the line, ports/sport still describe the previous expression",
                          {"now": other, "sport": port.sport[:60], "expected": intervals.encode(want2[2])[:60]})
        line0, wset, want = port.line, want2[2], want2
    # write-back history
    for view in case.get("history", []):
        try:
            setattr(port, view, getattr(port, view))
        except Exception as ex:  # pylint: disable=broad-except
            ctx.violation(case, f"assigning an expression's own {view} back raised",
                          f"{type(ex).__name__}: {ex}")
            break
        ctx.count("writebacks_judged")
        if port.line != line0 and not dup:
            ctx.violation(case, f"assigning an expression's own {view} back changed its text",
                          {"before": line0, "after": port.line})
            break
        if intervals.from_ints(port.ports) != wset or port.operator != want[0]:
            ctx.violation(case, f"assigning an expression's own {view} back changed its meaning",
                          {"before": intervals.encode(wset)[:80], "after": port.sport[:80]})
            break
    _drain(case, ctx)


def _bclass(vals) -> str:
    if any(v in (1, 65535) for v in vals):
        return "edge"
    if any(v in (2, 65534) for v in vals):
        return "near"
    if any(v & (v - 1) == 0 or (v + 1) & v == 0 for v in vals):
        return "pow2"
    return "mid"


def gen_cases(ctx):
    rng = ctx.rng
    thorough = ctx.tier == "thorough"
    idx = 0

    def mine():
        nonlocal idx
        idx += 1
        return idx % ctx.nshards == ctx.shard

    views = ["items", "ports", "sport"]
    if ctx.shard == 5:
        # expressions without a protocol that denote the same port set through different operators, one after the other in one
        # process (anything remembered per rendered text would confuse them: they all render nothing)
        for text in ("gt 65535", "lt 1", "range 1 1", "lt 2", "eq 1", "range 65000 65535", "gt 64999", "lt 3", "range 1 2", "eq 1 2",
                     "gt 65533", "range 65534 65535"):
            yield {"k": "expr", "text": text, "proto": "", "platform": "ios", "port_nr": False, "history": ["ports", "sport", "items"]}
    # boundaries for every operator
    for op in ("lt", "gt"):
        pool = [1, 2, 3, 4, 5, 1023, 1024, 1025, 16383, 16384, 32767, 32768, 65533, 65534, 65535]
        if thorough:
            pool = range(1, 65536)
        for val in pool:
            if thorough and ctx.time_left() < 0.7 * ctx.budget_s and val % 1024:
                # the complete enumeration of gt/lt operands may use 30 % of the budget (plus every 1024th operand afterwards);
                # the random part with its histories must be reached on a slow or loaded machine too
                STATS["enumeration_thinned"] = STATS.get("enumeration_thinned", 0) + 1
                continue
            if mine():
                hist = [rng.choice(views)] if not thorough or val % 64 == 0 else []
                if val in (1, 2, 65534, 65535):
                    hist = views[:]
                yield {"k": "expr", "text": f"{op} {val}", "proto": rng.choice(["tcp", "udp"]),
                       "platform": rng.choice(["ios", "nxos"]), "history": hist}
    for a, b in [(1, 1), (1, 2), (1, 65535), (65535, 1), (65535, 65535), (16380, 16390), (32760, 32775), (8190, 8195),
                 (65530, 65535), (2, 1), (1023, 1025), (4095, 4097), (500, 400)]:
        if mine():
            yield {"k": "expr", "text": f"range {a} {b}", "proto": "tcp", "platform": rng.choice(["ios", "nxos"]),
                   "history": views[:] + [rng.choice(views)]}
    for text in ("neq 1 65535", "neq 1 2 65535", "neq 1 65534 65535", "neq 65535 1 300", "range 1024 2000", "range 2000 1024",
                 "range 49152 50000", "range 1023 1024", "range 1024 65535", "gt 1023", "lt 1024", "gt 49151", "range 49152 65535"):
        if mine():
            yield {"k": "expr", "text": text, "proto": "tcp", "platform": "ios", "history": ["sport", "ports", "items", "sport"]}
    for iset in [(), ((1, 1),), ((65535, 65535),), ((1, 65535),), ((1, 1), (3, 3), (5, 7), (65535, 65535)),
                 ((16380, 16390),), ((1, 2), (65534, 65535))]:
        if mine():
            yield {"k": "codec", "set": iset, "shuffle": rng.randint(1, 99)}
    # random
    while True:
        roll = rng.random()
        if roll < 0.15:
            parts = []
            for _ in range(rng.randint(1, 8)):
                lo = grammar.rand_port(rng)
                parts.append((lo, min(65535, lo + rng.choice([0, 0, 1, 2, 10, 300]))))
            if rng.random() < 0.2:  # one small window with holes
                lo = min(grammar.rand_port(rng), 65500)
                parts = [(lo, lo)] + [(v, v) for v in range(lo + 1, lo + 5) if rng.random() < 0.4] + [(lo + 5, lo + 5)]
            yield {"k": "codec", "set": intervals.norm(parts), "shuffle": rng.choice([0, rng.randint(1, 999)]),
                   "dup": rng.choice([0, 0, 0, rng.randint(1, 999)])}
            continue
        platform = rng.choice(["ios", "ios", "nxos"])
        version = rng.choice(grammar.VERSIONS)
        proto = rng.choice(["tcp", "udp"])
        ops = ["eq", "eq", "neq", "range", "range", "lt", "gt"]
        port = grammar.gen_port(rng, proto, platform, version, ops=ops)
        if port["sem"][0] == "range" and rng.random() < 0.4:  # window straddling a power of two
            mid = 1 << rng.randint(3, 15)
            a, b = max(1, mid - rng.randint(1, 12)), min(65535, mid + rng.randint(0, 12))
            if rng.random() < 0.5:
                a, b = b, a
            port = {"text": f"range {a} {b}", "sem": ("range", (a, b), None)}
        hist = [rng.choice(views) for _ in range(rng.randint(1, 6))]
        if port["sem"][0] == "neq":
            # neq write-back through ports/sport costs ~0.6 s (65534 list removals): keep it rare
            hist = [v for v in hist if v == "items"] or ["items"]
            if rng.random() < 0.04:
                hist.append(rng.choice(["ports", "sport"]))
        case = {"k": "expr", "text": port["text"], "proto": proto, "platform": platform, "version": version,
                "port_nr": rng.random() < 0.3, "history": hist}
        toks = port["text"].split()
        if all(t.isdigit() for t in toks[1:]) and rng.random() < 0.1:
            case["proto"] = ""  # numeric operands need no protocol
            case["port_nr"] = False
        if len(toks) > 3 and toks[0] in ("eq", "neq") and all(t.isdigit() for t in toks[1:]) and rng.random() < 0.4:
            # a sibling right afterwards: same operator, same number of operands, same lowest and highest, other inner operands
            vals = sorted(int(t) for t in toks[1:])
            if vals[-1] - vals[0] > len(vals):
                inner = rng.sample(range(vals[0] + 1, vals[-1]), len(vals) - 2)
                sib = dict(case)
                sib["text"] = f"{toks[0]} " + " ".join(str(v) for v in [vals[0]] + sorted(inner) + [vals[-1]])
                sib["history"] = [v for v in case["history"] if v == "items"][:1]
                yield case
                yield sib
                continue
        if platform == "ios" and toks[0] in ("eq", "neq") and rng.random() < 0.15:
            # repeated operands ('eq 7 7 9'): stored as given; only the denoted set is judged, not the text
            if len(toks) <= 3 and rng.random() < 0.5:  # small window with holes, as many repeats as holes
                lo = grammar.rand_port(rng)
                lo = min(lo, 65530)
                keep = [lo] + [v for v in range(lo + 1, lo + 4) if rng.random() < 0.4] + [lo + 4]
                toks = [toks[0]] + [str(v) for v in keep]
                extra = [str(rng.choice(keep)) for _ in range(5 - len(keep))] or [str(lo)]
            else:
                extra = [rng.choice(toks[1:]) for _ in range(rng.randint(1, 2))]
            for tok in extra:
                toks.insert(rng.randint(1, len(toks)), tok)
            case["text"] = " ".join(toks)
            case["dups"] = True
            yield case
            continue
        if rng.random() < 0.3 and all(t.isdigit() for t in toks[1:]) and toks[0] != "neq" and len(set(toks[1:])) == len(toks[1:]):
            # same operands, other operator (and back)
            alts = {1: ["eq", "lt", "gt"], 2: ["range", "eq"] if platform == "ios" else ["range"]}.get(len(toks) - 1, [])
            alts = [a for a in alts if a != toks[0]]
            if alts:
                case["reassign"] = [f"{rng.choice(alts)} " + " ".join(toks[1:]) for _ in range(rng.randint(1, 2))]
                case["history"] = hist[:2]
        yield case


def run(ctx) -> None:
    install()
    n_max = {"quick": 1500, "thorough": 30000}[ctx.tier]
    done = 0
    for case in gen_cases(ctx):
        if ctx.expired() or done >= n_max:
            break
        inv0, cod0 = STATS["inv"], STATS["codec"]
        execute(ctx, case)
        done += 1
        if case["k"] == "codec":
            ctx.judged(sig=("codec", len(case["set"]), bool(case.get("shuffle"))), nontrivial=len(case["set"]) > 0,
                       n=max(1, STATS["codec"] - cod0))
        else:
            toks = case["text"].split()
            vals = [names.port_number(case["proto"], t) or 0 for t in toks[1:]]
            ctx.judged(sig=("expr", toks[0], len(vals), _bclass(vals), "".join(v[0] for v in case.get("history", []))[:4],
                            case["platform"]),
                       nontrivial=True, sample=case if len(vals) > 1 else None,
                       n=max(1, STATS["inv"] - inv0 + STATS["codec"] - cod0))
    ctx.count("invariant_evaluations", STATS["inv"])
    ctx.count("codec_contract_evaluations", STATS["codec"])
    ctx.count("gt_lt_operands_skipped_by_time_cap", STATS.get("enumeration_thinned", 0))
    ctx.count("invariant_evaluations_with_repeated_operands", STATS.get("dup", 0))
    ctx.count("cases", done)


def replay(ctx, case: dict) -> None:
    install()
    execute(ctx, case)
    ctx.judged(sig=("replay",))
