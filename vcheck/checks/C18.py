"""C18 Generated port/protocol ranges cover exactly the requested set.

Monitors: icontract post-condition on cisco_acl.functions.range_ports, tap on range_protocols.
Oracle: interval algebra on the request string parsed by own code; independent reader on the
template and on every generated line.
"""

from __future__ import annotations

from vcheck.gen import grammar
from vcheck.monitor import taps
from vcheck.oracle import intervals, reader

PROPERTY = "C18"
LEVEL = "exploration"
BUDGET_S = {"quick": 40, "thorough": 600}
FLOOR = {"quick": 800, "thorough": 15000}
MUST_REACH = ("range_ports_contract_evaluations", "range_protocols_judged", "rejected_as_expected")
RULE = ("requests: 1..12 disjoint singletons and a-b ranges in any order over 1..65535 (biased small so that names appear) "
        "resp. 0..255; source or destination side (sometimes both); tcp/udp templates with eq / range / no operator on "
        "the generated side and other fields populated; port_count 1..6; both range policies; both platforms (NX-OS with "
        "count > 1 must raise); port_nr / protocol_nr. judged = contract evaluations; distinct non-trivial = (function, "
        "platform, side, template operator, #parts, has range, port_count, policy, switch)"
        " Round 4: requests spelled with blanks; complete ranges 0-255 / 1-65535 on every run."
        " Round 5: calls relying on documented defaults; requests a,b,a-b."
        " Rounds 6-7: the same request text on both sides."
        " Round 9: range_protocols with port-bearing tcp/udp templates (refusal allowed).")
ASSUMPTIONS = ["combinations the API refuses by design raise ValueError and are counted as rejected_as_expected: an eq "
               "template with a range part under port_range=True, a range template with a single port, gt/lt templates, "
               "more than one port per line on NX-OS"]

FOUND = []
STATS = {"rp": 0, "rproto": 0}


DOCUMENTED_DEFAULTS_IN_FORCE = set()


class RangeBroken(Exception):
    """icontract post-condition failed."""


def _parse_request(text: str, lo: int, hi: int) -> tuple:
    pairs = []
    for part in text.replace(" ", "").split(","):
        if not part:
            continue
        if "-" in part:
            a, b = part.split("-")
            pairs.append((int(a), int(b)))
        else:
            pairs.append((int(part), int(part)))
    return intervals.clip(intervals.norm(pairs), lo, hi)


def _judge_side(lines, template, side, request, platform, port_nr, port_count, port_range, version=""):
    problems = []
    want = _parse_request(request, 1, 65535)
    tsem = reader.read_ace(template)
    field = "sport" if side == "src" else "dport"
    union = ()
    for line in lines:
        try:
            sem = reader.read_ace(line)
        except reader.ReadError as ex:
            problems.append(f"generated line {line!r} unreadable: {ex}")
            continue
        bad = reader.validate_ace_line(line, platform, "extended", lambda p: grammar.port_vocab(p, platform, version),
                                       grammar.proto_out_vocab(platform))
        if bad:
            problems.append(f"generated line {line!r} invalid on {platform}: {bad}")
        port = sem[field]
        if port is None:
            problems.append(f"generated line {line!r} has no port on the generated side")
            continue
        union = intervals.union(union, port[2])
        if port[0] == "eq" and len(port[1]) > max(1, port_count):
            problems.append(f"line {line!r} lists {len(port[1])} ports, limit {port_count}")
        if port[0] == "range" and not port_range:
            problems.append(f"line {line!r} uses range under port_range=False")
        if port[0] not in ("eq", "range"):
            problems.append(f"line {line!r} uses operator {port[0]}")
        if port_nr and any(not t.isdigit() for t in _port_tokens(line, field)):
            problems.append(f"line {line!r} shows a name under port_nr=True")
        # everything else equals the template
        for key in ("seq", "action", "proto", "src", "dst", "flags", "logs", "dport" if side == "src" else "sport"):
            a, b = sem[key], tsem[key]
            if key in ("sport", "dport"):
                a, b = (a and a[2]), (b and b[2])
            if a != b:
                problems.append(f"line {line!r} differs from the template in {key}: {a} != {b}")
    if union != want:
        missing = intervals.encode(intervals.intersect(want, intervals.complement(union)))[:60]
        extra = intervals.encode(intervals.intersect(union, intervals.complement(want)))[:60]
        problems.append(f"lines cover {intervals.encode(union)[:60]!r}, requested {intervals.encode(want)[:60]!r} (missing {missing!r} extra {extra!r})")
    return problems


def _port_tokens(line, field):
    toks = line.split()
    out = []
    seen = 0
    i = 0
    from vcheck.oracle import names  # pylint: disable=import-outside-toplevel

    while i < len(toks):
        if toks[i] in names.OPERATORS:
            seen += 1
            j = i + 1
            cur = []
            while j < len(toks) and (toks[j].isdigit() or toks[j] in names.TCP or toks[j] in names.UDP):
                cur.append(toks[j])
                j += 1
            out.append(cur)
            i = j
        else:
            i += 1
    sem = reader.read_ace(line)
    if field == "sport":
        return out[0] if out and sem["sport"] else []
    return out[-1] if out and sem["dport"] else []


def _rp_post(srcports, dstports, line, platform, port_nr, port_count, port_range, result) -> bool:
    STATS["rp"] += 1
    platform = platform or "ios"
    if platform not in ("ios", "nxos"):
        return True
    if "port_range" in DOCUMENTED_DEFAULTS_IN_FORCE:
        port_range = True  # the caller left the keyword out: the documented default (True) is what the lines are judged by
    lines = list(result)
    count = int(port_count or 1)
    if srcports and dstports:
        # the function returns the source lines first, then the destination lines; a line identical to the template can be
        # either, so every split point is tried and the reading with the fewest problems is judged
        best = None
        for cut in range(len(lines) + 1):
            probs = (_judge_side(lines[:cut], line, "src", srcports, platform, port_nr, count, port_range) +
                     _judge_side(lines[cut:], line, "dst", dstports, platform, port_nr, count, port_range))
            if best is None or len(probs) < len(best):
                best = probs
            if not probs:
                break
        problems = best or []
    elif srcports:
        problems = _judge_side(lines, line, "src", srcports, platform, port_nr, count, port_range)
    elif dstports:
        problems = _judge_side(lines, line, "dst", dstports, platform, port_nr, count, port_range)
    else:
        problems = [f"lines generated without a request: {lines[:3]}"] if lines else []
    for prob in problems:
        FOUND.append({"what": "range_ports lines do not cover exactly the requested ports / break the line contract",
                      "detail": prob})
    return True


def _post_rproto(args, kwargs, result, exc, token):
    if exc is not None:
        return
    STATS["rproto"] += 1
    request = str(kwargs.get("protocols") or "")
    template = str(kwargs.get("line") or "permit ip any any")
    platform = kwargs.get("platform") or "ios"
    want = _parse_request(request, 0, 255)
    tsem = reader.read_ace(template)
    got = []
    problems = []
    for line in result:
        try:
            sem = reader.read_ace(line)
        except reader.ReadError as ex:
            problems.append(f"generated line {line!r} unreadable: {ex}")
            continue
        bad = reader.validate_ace_line(line, platform, "extended", lambda p: grammar.port_vocab(p, platform, ""),
                                       grammar.proto_out_vocab(platform))
        if bad:
            problems.append(f"generated line {line!r} invalid on {platform}: {bad}")
        got.append(sem["proto"])
        for key in ("seq", "action", "src", "dst", "flags", "logs", "sport", "dport"):
            if sem[key] != tsem[key]:
                problems.append(f"line {line!r} differs from the template in {key}")
        if kwargs.get("protocol_nr") and not (sem["sport"] or sem["dport"]) and \
                not line.split()[1 if not line.split()[0].isdigit() else 2].isdigit():  # (with ports the tcp/udp keyword stays, decision 18)
            problems.append(f"line {line!r} shows a protocol name under protocol_nr=True")
    if intervals.from_ints(got) != want or len(got) != intervals.size(want):
        problems.append(f"lines cover protocols {intervals.encode(intervals.from_ints(got))!r} ({len(got)} lines), requested {intervals.encode(want)!r}")
    for prob in problems:
        FOUND.append({"what": "range_protocols lines do not cover exactly the requested protocols", "detail": prob})


def install():
    import icontract  # pylint: disable=import-outside-toplevel
    from cisco_acl import functions  # pylint: disable=import-outside-toplevel

    wrapped = icontract.ensure(_rp_post, error=RangeBroken)(functions.range_ports)
    taps.replace_function(functions, "range_ports", wrapped)
    taps.tap_function(functions, "range_protocols", _post_rproto)


def _drain(case, ctx):
    for item in FOUND:
        ctx.violation(case, item["what"], item["detail"])
    del FOUND[:]
    if taps.TAP_ERRORS:
        raise RuntimeError("monitor error: " + taps.TAP_ERRORS[0])


def _expect_refusal(case) -> str:
    """Reason why the API refuses this combination by design ('' = must succeed)."""
    for side in ("src", "dst"):
        req = case.get(side + "ports") or ""
        if not req:
            continue
        parts = [p for p in req.replace(" ", "").split(",") if p]
        has_range = any("-" in p for p in parts)
        has_single = any("-" not in p for p in parts)
        top = case["ops"][side]
        if top == "eq" and has_range and case["port_range"]:
            return "eq template with a range part under port_range=True"
        if top == "range":
            return "range template on the generated side (the API never rewrites a-b for it)"
        if case["platform"] == "nxos" and case["port_count"] > 1:
            singles = [p for p in parts if "-" not in p]
            if not case["port_range"]:
                if intervals.size(_parse_request(req, 1, 65535)) > 1:
                    return "NX-OS takes one port per line"
            else:
                run_len = 0
                for p in parts:
                    run_len = run_len + 1 if "-" not in p else 0
                    if run_len > 1:
                        return "NX-OS takes one port per line"
    return ""


def execute(ctx, case: dict) -> None:
    import cisco_acl  # pylint: disable=import-outside-toplevel

    if case["k"] == "ports":
        expect = _expect_refusal(case)
        kwargs = dict(srcports=case.get("srcports", ""), dstports=case.get("dstports", ""), line=case["line"],
                      platform=case["platform"], port_nr=case["port_nr"], port_count=case["port_count"],
                      port_range=case["port_range"])
        DOCUMENTED_DEFAULTS_IN_FORCE.clear()
        if case.get("omit_defaults"):
            # keywords whose value equals the documented default are left out
            for key, default in (("port_range", True), ("port_nr", False), ("srcports", ""), ("dstports", "")):
                if kwargs[key] == default and kwargs[key] is default or (key in ("srcports", "dstports") and kwargs[key] == ""):
                    kwargs.pop(key)
                    DOCUMENTED_DEFAULTS_IN_FORCE.add(key)
            ctx.count("calls_relying_on_documented_defaults")
        try:
            cisco_acl.range_ports(**kwargs)
        except ValueError as ex:
            if expect:
                ctx.count("rejected_as_expected")
            else:
                ctx.violation(case, "range_ports rejected a valid request", f"ValueError: {ex}")
            del FOUND[:]
            return
        except RangeBroken:
            raise
        except Exception as ex:  # pylint: disable=broad-except
            ctx.violation(case, "range_ports raised an undocumented error", f"{type(ex).__name__}: {ex}")
            del FOUND[:]
            return
        if expect:
            ctx.count("refusal_expected_but_accepted")
    else:
        try:
            cisco_acl.range_protocols(protocols=case["protocols"], line=case["line"], platform=case["platform"],
                                      protocol_nr=case["protocol_nr"])
        except ValueError as ex:
            if case.get("refusal_ok"):
                ctx.count("port_bearing_template_refused")  # (scope decision 20: refusing is fine, wrong lines are not)
            else:
                ctx.violation(case, "range_protocols raised on a valid request", f"{type(ex).__name__}: {ex}")
        except Exception as ex:  # pylint: disable=broad-except
            ctx.violation(case, "range_protocols raised on a valid request", f"{type(ex).__name__}: {ex}")
        ctx.count("range_protocols_judged")
    _drain(case, ctx)


def _request(rng, lo, hi, small_bias=True, max_width=40, overlap=False, hyphen_blanks=True):
    parts = []
    used = ()
    for _ in range(rng.randint(1, 12)):
        if small_bias and rng.random() < 0.6:
            a = rng.choice([7, 9, 13, 19, 20, 21, 22, 23, 25, 37, 49, 53, 69, 80, 110, 123, 161, 179, 443, 514, 520, 3949])
            a = min(hi, a)
        else:
            a = rng.randint(lo, hi)
        b = a if rng.random() < 0.6 else min(hi, a + rng.randint(1, max_width))
        cand = ((a, b),)
        if intervals.intersect(used, cand) and (not overlap or a == b):
            continue
        used = intervals.union(used, cand)
        parts.append((str(a) if rng.random() < 0.85 else f"{a}-{a}") if a == b else f"{a}-{b}")
    rng.shuffle(parts)
    if overlap and rng.random() < 0.4:
        # two single ports directly followed by the range between them (the ports are requested twice: the set is what counts)
        a = rng.choice([20, 21, 80, 443, 1000, rng.randint(lo + 1, hi - 60)])
        b = min(hi, a + rng.choice([2, 2, 5, 50]))
        pos = rng.randint(0, len(parts))
        parts[pos:pos] = [str(a), str(b), f"{a}-{b}"]
    if rng.random() < 0.12:  # blanks around commas and hyphens (same request, other spelling)
        if hyphen_blanks:  # range_ports takes them; range_protocols refuses them with a value error (not judged)
            parts = [p.replace("-", rng.choice([" - ", " -", "- "])) if rng.random() < 0.5 else p for p in parts]
        return rng.choice([", ", " , ", " ,"]).join(parts)
    return ",".join(parts)


def gen_cases(ctx):
    rng = ctx.rng
    # requests that cover everything (the complete range is a request like any other)
    full = [{"k": "proto", "platform": "ios", "protocols": "0-255", "line": "permit ip any any", "protocol_nr": False},
            {"k": "proto", "platform": "nxos", "protocols": "0,1-255", "line": "deny ip any any log", "protocol_nr": True},
            {"k": "proto", "platform": "ios", "protocols": "0-100,101-255", "line": "10 permit ip host 10.0.0.1 any", "protocol_nr": False},
            {"k": "proto", "platform": "ios", "protocols": "255,0-254", "line": "permit ip any any", "protocol_nr": True},
            {"k": "ports", "platform": "ios", "line": "permit tcp any any", "ops": {"src": "", "dst": ""}, "port_nr": True,
             "port_count": 1, "port_range": True, "dstports": "1-65535"},
            {"k": "ports", "platform": "nxos", "line": "permit udp any any", "ops": {"src": "", "dst": ""}, "port_nr": False,
             "port_count": 1, "port_range": True, "srcports": "1-65534,65535"}]
    if ctx.tier == "thorough":
        full.append({"k": "ports", "platform": "ios", "line": "permit tcp any any", "ops": {"src": "", "dst": ""}, "port_nr": True,
                     "port_count": 1, "port_range": False, "dstports": "1-65535"})
    for n, case in enumerate(full):
        if n % ctx.nshards == ctx.shard:
            ctx.count("complete_range_requests")
            yield case
    while True:
        platform = rng.choice(["ios", "ios", "nxos"])
        if rng.random() < 0.2:
            addr = lambda: grammar.gen_addr(rng, platform, allow_group=True, foreign=False)["text"]
            log = rng.choice(["", "", " log"])
            seq = rng.choice(["", "", "10 "])
            line = f"{seq}{rng.choice(['permit', 'deny'])} ip {addr()} {addr()}{log}"
            if rng.random() < 0.15:
                # a tcp/udp template that carries a port, asked for tcp and udp only: a refusal is fine; lines, if any, must be valid
                pr = rng.choice(["tcp", "udp"])
                port = rng.choice(["eq 80", "eq 53", "eq 1025", "range 20 25", "eq 514"])
                tline = f"{rng.choice(['permit', 'deny'])} {pr} any {port} any" if rng.random() < 0.5 else f"permit {pr} any any {port}"
                yield {"k": "proto", "platform": platform, "protocols": rng.choice(["6,17", "17", "6", "17,6"]), "line": tline,
                       "protocol_nr": rng.random() < 0.5, "refusal_ok": True}
                continue
            yield {"k": "proto", "platform": platform, "protocols": _request(rng, 0, 255, small_bias=False, max_width=12, hyphen_blanks=False),
                   "line": line, "protocol_nr": rng.random() < 0.5}
            continue
        proto = rng.choice(["tcp", "udp"])
        ops = {"src": rng.choice(["", "", "eq", "range"]), "dst": rng.choice(["", "", "eq", "range"])}
        addr = lambda: grammar.gen_addr(rng, platform, allow_group=True, foreign=False)["text"]

        def tport(op):
            if op == "eq":
                return " eq 1000"
            if op == "range":
                return " range 1000 1001"
            return ""

        flags = rng.choice(["", "", " log", " ack"]) if proto == "tcp" else rng.choice(["", " log"])
        line = f"{rng.choice(['', '20 '])}{rng.choice(['permit', 'deny'])} {proto} {addr()}{tport(ops['src'])} {addr()}{tport(ops['dst'])}{flags}"
        sides = rng.choice(["src", "dst", "dst", "both"])
        port_range = rng.random() < 0.6
        case = {"k": "ports", "platform": platform, "line": line, "ops": ops, "port_nr": rng.random() < 0.4,
                "port_count": rng.choice([1, 1, 2, 3, 4, 6]), "port_range": port_range}
        if rng.random() < 0.3:
            case["omit_defaults"] = True
        for side in ("src", "dst"):
            if sides in (side, "both"):
                top = ops[side]
                if top == "range" and rng.random() < 0.8:
                    # a request of ranges only (what a range template accepts)
                    req = ",".join(p for p in _request(rng, 1, 65535).replace(" ", "").split(",") if "-" in p) or "5-9"
                elif top == "eq" and port_range and rng.random() < 0.8:
                    req = ",".join(p for p in _request(rng, 1, 65535).replace(" ", "").split(",") if "-" not in p) or "80"
                else:
                    req = _request(rng, 1, 65535, max_width=40 if not port_range else 3000, overlap=rng.random() < 0.25)
                case[side + "ports"] = req
        if sides == "both" and rng.random() < 0.25:
            case["dstports"] = case["srcports"]  # the very same request text on both sides
        yield case


def run(ctx) -> None:
    install()
    n_max = {"quick": 2500, "thorough": 40000}[ctx.tier]
    done = 0
    for case in gen_cases(ctx):
        if ctx.expired() or done >= n_max:
            break
        before = STATS["rp"] + STATS["rproto"]
        execute(ctx, case)
        done += 1
        if case["k"] == "ports":
            req = (case.get("srcports") or "") + "," + (case.get("dstports") or "")
            if " " in req:
                ctx.count("requests_spelled_with_blanks")
            sig = ("ports", case["platform"], bool(case.get("srcports")), bool(case.get("dstports")), case["ops"]["src"],
                   case["ops"]["dst"], min(8, req.count(",")), "-" in req, case["port_count"], case["port_range"], case["port_nr"])
        else:
            sig = ("proto", case["platform"], min(8, case["protocols"].count(",")), "-" in case["protocols"], case["protocol_nr"])
            if " " in case["protocols"]:
                ctx.count("requests_spelled_with_blanks")
        ctx.judged(sig=sig, nontrivial=True, n=1, sample=case if done % 100 == 1 else None)
    ctx.count("range_ports_contract_evaluations", STATS["rp"])
    ctx.count("cases", done)


def replay(ctx, case: dict) -> None:
    install()
    execute(ctx, case)
    ctx.judged(sig=("replay",))
