"""C20 Arbitrary text only ever yields an object or a documented value/type error.

Monitor: exception-type classifier + CPU-time budget per case (time.process_time, load independent;
a case that never returns trips RLIMIT_CPU and the dead shard is reported with the case it was
running) + re-accept post-condition (the returned object's text goes back into the same constructor
with the same kwargs). A generous wall-clock watchdog around the shard is separate and inconclusive.
"""

from __future__ import annotations

import json
import os
import resource
import signal
import time

from vcheck.gen import grammar
from vcheck.oracle import names

PROPERTY = "C20"
LEVEL = "exploration"
BUDGET_S = {"quick": 45, "thorough": 600}
FLOOR = {"quick": 20000, "thorough": 200000}
MUST_REACH = ("returned_objects_reaccepted", "documented_errors", "config_level_calls")
RULE = ("hostile strings: token soups over the ACL vocabulary (keywords, operators, names, numbers incl. out-of-range, dotted "
        "quads incl. bad octets, prefixes, punctuation), truncated / permuted / token-mutated valid lines, empty and blank input, "
        "non-ASCII digits, very long lines (to 4 KB), multi-line bodies with random, zig-zag and deepening indentation, comment "
        "lines; given to Ace, Remark, AceGroup, Acl, Address, AddressAg, AddrGroup, Port, Protocol, Option, Wildcard and to "
        "acls/aces/addrgroups on ios, nxos and asa. judged = calls classified (returned + re-accepted / documented error); "
        "distinct non-trivial = (class, platform, generator kind, outcome, exception type)"
        " Round 4: every documented spelling of the platform argument; group-object cycles used by an ACE."
        " Round 5: range-only groups; one group name defined twice."
        " Rounds 6-7: destination lists of 1500..2500 ports."
        " Round 8: tokens starting with a slash.")
ASSUMPTIONS = ["documented errors are ValueError and TypeError with their subclasses (AddressValueError, NetmaskValueError, "
               "NetportsValueError)", "CPU budget 5 s per case for inputs <= 4 KB, 20 s hard limit by RLIMIT_CPU",
               "state after a raising call is not judged"]

CPU_BUDGET = 5.0
CPU_HARD = 20
CLASSES = ["Ace", "Remark", "AceGroup", "Acl", "Address", "AddressAg", "AddrGroup", "Port", "Protocol", "Option", "Wildcard",
           "acls", "aces", "addrgroups"]
PLATFORMS = ["ios", "nxos", "asa", "ios", "nxos", "asa", "cisco_ios", "cisco_nxos", "cnx", "cisco_asa"]  # documented spellings
ALIAS = {"cisco_ios": "ios", "cisco_nxos": "nxos", "cnx": "nxos", "cisco_asa": "asa"}
ADDR_LIKE = {"any", "host", "object-group", "addrgroup"}

VOCAB = (["permit", "deny", "remark", "ip", "tcp", "udp", "icmp", "any", "host", "object-group", "addrgroup", "group-object",
          "eq", "neq", "gt", "lt", "range", "log", "log-input", "ack", "syn", "established", "www", "bgp", "cmd", "syslog",
          "ip access-list", "extended", "standard", "access-list", "object-group network", "object-group ip address",
          "interface", "ip access-group", "in", "out", "description", "statistics per-entry", "!", "", " ", "\t"]
         + ["0", "1", "10", "255", "256", "65535", "65536", "4294967295", "4294967296", "-1", "1e3", "0x10", "٣", "１２", "²"]
         + ["10.0.0.1", "0.0.0.255", "255.255.255.0", "0.0.0.0", "255.255.255.255", "300.1.1.1", "1.2.3", "1.2.3.4.5", "10.0.0.0/8",
            "10.0.0.0/33", "10.0.0.1/24", "0.0.0.0/0", "1.1.1.1/-1", "0.255.0.255", "85.85.85.85", "255.85.255.85"]
         + ["NAME", "A-1", "x_y", "?", "a?b", "é", "'", '"', "\\", "(", ")", ",", "="]
         + ["ACL-IN(1", "ACL[EDGE", "*EDGE*", "ACL)", "A+B", "a|b", "x{2", "1" * 30, "9" * 45, "12345678901234567890123456789012 permit",
            "00000000000000000000000000000000000010"])


def _hostile(rng, cls):
    """(text, generator kind)."""
    roll = rng.random()
    if roll < 0.04:
        return rng.choice(["", " ", "   ", "\n", "\t", " \n \n", "\n\n"]), "blank"
    if roll < 0.40:
        toks = [rng.choice(VOCAB) for _ in range(rng.randint(1, 9))]
        return " ".join(toks), "soup"
    if roll < 0.75:
        base = _valid_text(rng, cls)
        kind = rng.choice(["truncate", "permute", "mutate", "dup", "drop", "insert", "case"])
        toks = base.split(" ")
        if kind == "truncate":
            return base[:rng.randint(0, len(base))], kind
        if kind == "permute":
            rng.shuffle(toks)
        elif kind == "mutate" and toks:
            toks[rng.randrange(len(toks))] = rng.choice(VOCAB)
        elif kind == "dup" and toks:
            i = rng.randrange(len(toks))
            toks.insert(i, toks[i])
        elif kind == "drop" and toks:
            toks.pop(rng.randrange(len(toks)))
        elif kind == "insert":
            toks.insert(rng.randint(0, len(toks)), rng.choice(VOCAB))
        elif kind == "case":
            return base.upper() if rng.random() < 0.5 else base.title(), kind
        return " ".join(toks), kind
    if roll < 0.80:
        base = _valid_text(rng, cls)
        return base, "valid"
    if roll < 0.84:
        word = rng.choice(VOCAB + ["permit ip any any", "1.2.3.4 "])
        return (word + " ") * rng.randint(20, 400), "long"
    # multi-line bodies with hostile indentation
    lines = []
    depth = 0
    for _ in range(rng.randint(1, 14)):
        mode = rng.choice(["same", "deeper", "shallower", "random", "zero"])
        if mode == "deeper":
            depth += rng.randint(1, 3)
        elif mode == "shallower":
            depth = max(0, depth - rng.randint(1, 3))
        elif mode == "random":
            depth = rng.randint(0, 12)
        elif mode == "zero":
            depth = 0
        body = rng.choice([_valid_text(rng, rng.choice(["Ace", "Remark", "AddressAg", "Acl", "AddrGroup"])).split("\n")[0],
                           " ".join(rng.choice(VOCAB) for _ in range(rng.randint(1, 5))),
                           "interface Eth1", "ip access-group A in", "ip access-group A", "ip access-group A sideways", "!"])
        ind = rng.choice([" ", " ", "\t"]) * depth
        lines.append(ind + body)
    return "\n".join(lines), "indent"


def _valid_text(rng, cls):
    platform = rng.choice(["ios", "nxos"])
    if cls in ("Ace",):
        return grammar.gen_ace(rng, platform, "", ws=False)["text"]
    if cls == "Remark":
        return grammar.gen_remark(rng)["text"]
    if cls in ("AceGroup",):
        return "\n".join(grammar.gen_ace(rng, platform, "", ws=False)["text"] for _ in range(rng.randint(1, 3)))
    if cls in ("Acl", "acls", "aces"):
        return grammar.gen_acl(rng, platform, n_lines=rng.randint(1, 4))["text"]
    if cls in ("Address",):
        return grammar.gen_addr(rng, platform)["text"]
    if cls == "AddressAg":
        return rng.choice(["host 10.0.0.1", "10.0.0.0 255.255.255.0", "10.0.0.0/24", "10 10.0.0.0 0.0.0.255", "group-object G",
                           "range 10.0.0.1 10.0.0.9", "description only", "/24", "10 /24", "/", "host /32"])
    if cls in ("AddrGroup", "addrgroups"):
        head = rng.choice(["object-group network G1", "object-group ip address G1"])
        return head + "\n" + "\n".join(" " + rng.choice(["host 10.0.0.1", "10.0.0.0 255.255.255.0", "10.0.0.0/24", "10 host 1.1.1.1"])
                                       for _ in range(rng.randint(1, 3)))
    if cls == "Port":
        return grammar.gen_port(rng, "tcp", platform, "")["text"]
    if cls == "Protocol":
        return rng.choice(list(names.PROTO) + ["0", "255"])
    if cls == "Option":
        return rng.choice(["ack log", "syn", "log-input", "established"])
    return rng.choice(["10.0.0.0 0.0.0.255", "10.0.0.1 0.0.0.0", "0.0.0.0 255.255.255.255", "10.0.0.0 0.0.3.3"])


def _call(cls, text, kwargs):
    import cisco_acl  # pylint: disable=import-outside-toplevel

    return getattr(cisco_acl, cls)(text, **kwargs)


def _render(obj):
    if isinstance(obj, list):
        return "\n".join(o.line for o in obj)
    return obj.line


def classify_known(case, stage, exc, first_type=None, rendered=None) -> str | None:
    """Mechanism keys of the known findings (never input hashes)."""
    cls, text, platform = case["cls"], case["text"], case["kwargs"].get("platform", "ios")
    platform = ALIAS.get(platform, platform)
    if stage == "reaccept":
        if cls in ("Acl", "Remark") and not text.strip():
            return "blank-acl-remark"
        if cls in ("AddressAg", "AddrGroup", "addrgroups", "acls") and platform == "asa":
            # an ASA group member given as prefix with len < 32 stays untyped and renders ''
            for line in text.split("\n"):
                toks = line.split()
                if toks and "/" in toks[-1] and toks[-1][0].isdigit() and not toks[-1].endswith("/32"):
                    return "asa-addressag-prefix"
        if cls in ("AddressAg", "AddrGroup", "addrgroups", "acls") and platform == "ios" and rendered and exc is not None:
            # IOS group member 'A 0.0.0.0' is read as 0.0.0.0/0 and renders '0.0.0.0 0.0.0.0', which is denied
            import re  # pylint: disable=import-outside-toplevel

            norm = " ".join(text.replace("\n", " \n ").split(" "))
            if re.search(r"(^|\s)0\.0\.0\.0 0\.0\.0\.0(\s|$)", rendered) and \
                    re.search(r"\d+\.\d+\.\d+\.\d+\s+0\.0\.0\.0(\s|$)", norm):
                return "ios-addressag-zero-mask"
        if cls in ("Acl", "acls", "aces") and platform == "asa" and rendered and \
                any(" ".join(ln.split()) in ("ip access-list extended", "ip access-list standard") for ln in rendered.split("\n")):
            # ASA headers are read with an optional type word but rendered without it: an ACL *named* extended/standard
            # ('ip access-list extended extended') renders 'ip access-list extended', which is denied as a missing name
            return "asa-acl-named-like-type"
        if first_type == "standard":
            return "standard-ace-option-reparse"
    if stage == "call" and isinstance(exc, RecursionError) and cls in ("acls", "aces", "addrgroups"):
        import traceback  # pylint: disable=import-outside-toplevel

        frames = traceback.extract_tb(exc.__traceback__)
        if any(fr.name == "_get_indented_dic" for fr in frames):
            return "deep-indent-recursion"
    return None


def _standard_involved(obj) -> bool:
    """First parse produced a standard ACE whose option part contains address-like tokens (K2b mechanism)."""
    def aces(o):
        if isinstance(o, list):
            for x in o:
                yield from aces(x)
        elif type(o).__name__ == "Ace":
            yield o
        elif hasattr(o, "items") and type(o).__name__ in ("Acl", "AceGroup"):
            for x in o.items:
                yield from aces(x)

    for ace in aces(obj):
        if ace.type == "standard":
            opts = ace.option.line.split()
            if any(t in ADDR_LIKE or t.count(".") == 3 or "/" in t for t in opts) or opts:
                return True
    return False


def execute(ctx, case: dict, cur=None) -> str:
    cls, text, kwargs = case["cls"], case["text"], case["kwargs"]
    if cur is not None:
        cur.seek(0)
        cur.write(json.dumps(case))
        cur.truncate()
        cur.flush()
    cpu0 = time.process_time()
    try:
        resource.setrlimit(resource.RLIMIT_CPU, (int(cpu0) + CPU_HARD + 1, resource.getrlimit(resource.RLIMIT_CPU)[1]))
    except (ValueError, OSError):
        pass
    outcome = "returned"
    obj = None
    try:
        obj = _call(cls, text, kwargs)
    except (ValueError, TypeError) as ex:
        outcome = "error:" + type(ex).__name__
        ctx.count("documented_errors")
    except RecursionError as ex:
        outcome = "error:RecursionError"
        ctx.violation(case, "an undocumented exception type was raised", f"RecursionError: {str(ex)[:200]}",
                      known=classify_known(case, "call", ex))
    except Exception as ex:  # pylint: disable=broad-except
        outcome = "error:" + type(ex).__name__
        ctx.violation(case, "an undocumented exception type was raised", f"{type(ex).__name__}: {str(ex)[:300]}")
    if obj is not None:
        try:
            rendered = _render(obj)
        except Exception as ex:  # pylint: disable=broad-except
            ctx.violation(case, "the returned object cannot render its text", f"{type(ex).__name__}: {str(ex)[:300]}")
            rendered = None
        if rendered is not None:
            try:
                _call(cls, rendered, kwargs)
                ctx.count("returned_objects_reaccepted")
            except Exception as ex:  # pylint: disable=broad-except
                known = classify_known(case, "reaccept", ex, "standard" if _standard_involved(obj) else None, rendered)
                ctx.violation(case, "the returned object renders text that the same constructor rejects",
                              {"rendered": rendered[:300], "error": f"{type(ex).__name__}: {str(ex)[:200]}"}, known=known)
    used = time.process_time() - cpu0
    if used > CPU_BUDGET and len(text) <= 4096:
        ctx.violation(case, f"a case used {used:.1f} s CPU (budget {CPU_BUDGET} s)", {"len": len(text)})
    if cls in ("acls", "aces", "addrgroups"):
        ctx.count("config_level_calls")
    return outcome


DETERMINISTIC = [
    {"cls": "Acl", "text": "", "kwargs": {"platform": "ios"}},
    {"cls": "Acl", "text": "  ", "kwargs": {"platform": "nxos"}},
    {"cls": "Remark", "text": "", "kwargs": {"platform": "ios"}},
    {"cls": "Ace", "text": "permit 1.2.3.4 addrgroup tcp", "kwargs": {"platform": "ios"}},
    {"cls": "Ace", "text": "permit host 10.0.0.1 any log", "kwargs": {"platform": "ios"}},
    {"cls": "AddressAg", "text": "10.0.0.0/24", "kwargs": {"platform": "asa"}},
    {"cls": "Acl", "text": "ip access-list extended extended", "kwargs": {"platform": "asa"}},
    {"cls": "acls", "text": "ip access-list extended standard\n permit ip any any\n", "kwargs": {"platform": "asa"}},
    {"cls": "AddressAg", "text": "17 10.1.0.0/16", "kwargs": {"platform": "asa"}},
    {"cls": "AddressAg", "text": "10.0.0.0 0.0.0.0", "kwargs": {"platform": "ios"}},
    {"cls": "AddrGroup", "text": "object-group network G1\n 10.0.0.0 0.0.0.0", "kwargs": {"platform": "ios"}},
    {"cls": "addrgroups", "text": "object-group network G1\n 10.0.0.0 0.0.0.0\n host 1.1.1.1", "kwargs": {"platform": "ios"}},
    # address groups that lead back to themselves through group-object (directly, or G -> H -> G), used by an ACE
    {"cls": "acls", "text": "object-group network G\n group-object G\n host 10.0.0.1\nip access-list extended A\n permit ip object-group G any\n",
     "kwargs": {"platform": "ios"}},
    {"cls": "acls", "text": "object-group network G\n host 10.0.0.1\n group-object H\nobject-group network H\n group-object G\n"
                            "ip access-list extended A\n permit ip any object-group G\n permit ip object-group H any\n",
     "kwargs": {"platform": "ios"}},
    {"cls": "aces", "text": "object-group network G\n group-object G\nip access-list extended A\n permit ip object-group G any\n",
     "kwargs": {"platform": "cisco_ios"}},
    {"cls": "addrgroups", "text": "object-group network G\n group-object H\nobject-group network H\n group-object G\n", "kwargs": {"platform": "ios"}},
    {"cls": "acls", "text": "object-group ip address G\n 10 group-object G\nip access-list A\n permit ip addrgroup G any\n", "kwargs": {"platform": "nxos"}},
    # groups made of lines the group parser does not take (range members), alone and mixed
    {"cls": "addrgroups", "text": "object-group network G\n range 10.0.0.1 10.0.0.5\n", "kwargs": {"platform": "ios"}},
    {"cls": "addrgroups", "text": "object-group network G\n description x\n range 10.0.0.1 10.0.0.5\n range 10.0.1.1 10.0.1.5\n",
     "kwargs": {"platform": "ios"}},
    {"cls": "acls", "text": "object-group network G\n range 10.0.0.1 10.0.0.5\nip access-list extended A\n permit ip object-group G any\n",
     "kwargs": {"platform": "ios"}},
    {"cls": "AddrGroup", "text": "object-group ip address G\n range 10.0.0.1 10.0.0.5", "kwargs": {"platform": "nxos"}},
    # one group name defined twice (same header twice; both header forms; headers that differ in inner blanks), used by an ACE
    {"cls": "acls", "text": "object-group network G\n host 10.0.0.1\nobject-group network G\n host 10.0.0.2\n"
                            "ip access-list extended A\n permit ip object-group G any\n", "kwargs": {"platform": "ios"}},
    {"cls": "acls", "text": "object-group network G\n host 10.0.0.1\nobject-group ip address G\n host 10.0.0.2\n"
                            "ip access-list extended A\n permit ip any object-group G\n", "kwargs": {"platform": "ios"}},
    {"cls": "acls", "text": "object-group ip address G\n 10 host 10.0.0.1\nobject-group ip  address G\n 10 host 10.0.0.2\n"
                            "ip access-list A\n permit ip addrgroup G any\n", "kwargs": {"platform": "nxos"}},
    {"cls": "aces", "text": "object-group network G\n host 10.0.0.1\nobject-group network  G\n host 10.0.0.2\n"
                            "ip access-list extended A\n permit ip object-group G object-group G\n", "kwargs": {"platform": "ios"}},
    {"cls": "Address", "text": "/24", "kwargs": {"platform": "ios"}},
    {"cls": "AddressAg", "text": "10 /24", "kwargs": {"platform": "nxos"}},
    {"cls": "AddrGroup", "text": "object-group ip address G\n /24\n 10.0.0.0/24", "kwargs": {"platform": "nxos"}},
    {"cls": "addrgroups", "text": "object-group network G\n /24\n host 1.1.1.1\n", "kwargs": {"platform": "ios"}},
    {"cls": "Ace", "text": "permit ip /24 any", "kwargs": {"platform": "nxos"}},
    {"cls": "Wildcard", "text": "/24", "kwargs": {"platform": "ios"}},
    {"cls": "Ace", "text": "permit tcp any any eq 80", "kwargs": {"platform": "cisco_asa"}},
    {"cls": "Acl", "text": "ip access-list extended A\n permit icmp any any", "kwargs": {"platform": "cisco_asa"}},
    {"cls": "Port", "text": "range 4294967296 1284", "kwargs": {"platform": "ios", "protocol": "tcp"}},
    {"cls": "Ace", "text": "permit tcp any any range 1 99999999999", "kwargs": {"platform": "nxos"}},
    {"cls": "acls", "text": "\n".join(" " * i + f"l{i}" for i in range(1500)), "kwargs": {"platform": "ios"}},
    {"cls": "aces", "text": "\n".join(" " * i + f"l{i}" for i in range(1200)), "kwargs": {"platform": "nxos"}},
    {"cls": "addrgroups", "text": "\n".join(" " * i + f"l{i}" for i in range(1100)), "kwargs": {"platform": "ios"}},
    {"cls": "acls", "text": "\n".join(" " * (i % 7) + "ip access-list extended A" for i in range(300)), "kwargs": {"platform": "ios"}},
    {"cls": "acls", "text": "ip access-list extended ACL-IN(1\n permit ip any any\ninterface Eth1\n ip access-group ACL-IN(1 in\n", "kwargs": {"platform": "ios"}},
    {"cls": "acls", "text": "ip access-list ACL[EDGE\n permit ip any any\ninterface Eth1\n ip access-group ACL[EDGE out\n ip access-group *X* in\n", "kwargs": {"platform": "nxos"}},
    {"cls": "Acl", "text": "ip access-list extended A\n " + "7" * 40 + " foo\n permit ip any any", "kwargs": {"platform": "ios"}},
    {"cls": "AceGroup", "text": "1" * 33 + "\n" + "2" * 29 + " x", "kwargs": {"platform": "nxos"}},
    {"cls": "aces", "text": "ip access-list extended A\n " + "3" * 36 + "\n", "kwargs": {"platform": "ios"}},
    {"cls": "Ace", "text": "permit tcp any any eq " + " ".join(str(i) for i in range(1, 600)), "kwargs": {"platform": "ios"}},
    {"cls": "Ace", "text": "permit tcp any any eq " + " ".join(str(i) for i in range(1, 3000, 2)) + " log", "kwargs": {"platform": "ios"}},
    {"cls": "Acl", "text": "ip access-list A\n permit udp any any neq " + " ".join(str(i) for i in range(1, 2500)), "kwargs": {"platform": "nxos"}},
    {"cls": "aces", "text": "ip access-list extended A\n permit tcp any eq " + " ".join(["www"] * 1800) + " any eq " + " ".join(["22"] * 1800) + "\n",
     "kwargs": {"platform": "ios"}},
    {"cls": "Acl", "text": "ip access-list extended A\n" + "\n".join(f" permit tcp host 10.0.{i % 250}.1 any eq {i + 1}" for i in range(400)),
     "kwargs": {"platform": "ios"}},
]


def run(ctx) -> None:
    rng = ctx.rng
    n_max = {"quick": 30000, "thorough": 400000}[ctx.tier]
    cur_path = os.environ.get("VCHECK_CUR", "")
    cur = open(cur_path, "w", encoding="utf-8") if cur_path else None  # noqa
    try:  # memory guard: a runaway allocation becomes a MemoryError (undocumented exception), not a dead machine
        resource.setrlimit(resource.RLIMIT_AS, (6 << 30, resource.getrlimit(resource.RLIMIT_AS)[1]))
    except (ValueError, OSError):
        pass
    done = 0
    for n, case in enumerate(DETERMINISTIC):
        if n % ctx.nshards == ctx.shard:
            out = execute(ctx, case, cur)
            ctx.judged(sig=("det", n, out), nontrivial=True)
            done += 1
    # scaling probe (evidence only): CPU time for inputs of size n, 2n, 4n
    if ctx.shard == 0:
        probe = {}
        for cls, unit in (("Ace", "permit tcp any any eq 1 "), ("acls", "ip access-list extended A\n permit ip any any\n"),
                          ("Remark", "remark x ")):
            times = []
            for mult in (200, 400, 800):
                t0 = time.process_time()
                try:
                    _call(cls, unit * mult, {"platform": "ios"})
                except Exception:  # pylint: disable=broad-except
                    pass
                times.append(round(time.process_time() - t0, 4))
            probe[cls] = times
        ctx.extra["scaling_cpu_s_n_2n_4n"] = probe
    while done < n_max and not ctx.expired():
        cls = rng.choice(CLASSES)
        platform = rng.choice(PLATFORMS)
        text, kind = _hostile(rng, cls)
        kwargs = {"platform": platform}
        if cls == "Port":
            kwargs["protocol"] = rng.choice(["tcp", "udp", "", "6"])
        if cls == "Ace" and rng.random() < 0.1:
            kwargs["type"] = "standard"
        if cls in ("Acl", "acls") and rng.random() < 0.2:
            kwargs["group_by"] = "= "
        case = {"cls": cls, "text": text, "kwargs": kwargs}
        out = execute(ctx, case, cur)
        done += 1
        ctx.judged(sig=(cls, platform, kind, out), nontrivial=kind != "valid",
                   sample=case if done % 3000 == 1 and len(text) < 200 else None)
    ctx.count("cases", done)
    try:
        resource.setrlimit(resource.RLIMIT_CPU, (resource.RLIM_INFINITY, resource.getrlimit(resource.RLIMIT_CPU)[1]))
    except (ValueError, OSError):
        pass
    if cur is not None:
        cur.close()


def on_shard_death(shard: int, returncode, cur_path: str):
    """Called by the runner when a shard wrote no result: a SIGXCPU/SIGKILL death on RLIMIT_CPU is a CPU-budget violation."""
    if returncode in (-signal.SIGXCPU, -signal.SIGKILL) and os.path.exists(cur_path):
        try:
            with open(cur_path, encoding="utf-8") as fh:
                case = json.load(fh)
        except (OSError, ValueError):
            return None
        if returncode == -signal.SIGXCPU:
            return {"case": case, "what": f"a case exceeded the hard CPU limit of {CPU_HARD} s (endless computation)",
                    "detail": {"shard": shard}}
    return None


def merge_extra(extras):
    for ext in extras:
        if ext.get("scaling_cpu_s_n_2n_4n"):
            return {"scaling_cpu_s_n_2n_4n": ext["scaling_cpu_s_n_2n_4n"]}
    return {}


def replay(ctx, case: dict) -> None:
    execute(ctx, case)
    ctx.judged(sig=("replay",))
