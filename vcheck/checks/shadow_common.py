"""Shared by C03, C04, C11, C17: meaning of live Ace objects, related-pair and small-world generators."""

from __future__ import annotations

from vcheck.checks.C13 import derive, rand_cube, spell
from vcheck.gen import grammar
from vcheck.oracle import bits, intervals, names, packets

SKIP_SETS = [None, [], ["addrgroup"], ["nc_wildcard"], ["addrgroup", "nc_wildcard"], ["nc_wildcard", "addrgroup"]]


def addr_cubes(addr):
    """Address -> (cubes, is_group, has_nc) through public views."""
    if addr.addrgroup:
        cubes = []
        for item in addr.items:
            base, mask = item.wildcard.split()
            cubes.append(bits.cube(bits.ip2int(base), bits.ip2int(mask)))
        return cubes, True, any(not bits.is_contiguous(c[1]) for c in cubes)
    base, mask = addr.wildcard.split()
    cube = bits.cube(bits.ip2int(base), bits.ip2int(mask))
    return [cube], False, not bits.is_contiguous(cube[1])


def port_set(port):
    """Port -> IntervalSet from (operator, items), None when absent; 'outside' when operands leave 1..65535."""
    if not port.operator:
        return None
    items = list(port.items)
    if any(not 0 <= i <= 65535 for i in items):
        return "outside"  # (operand 0 is accepted by the library; inside the universe 1..65535 it denotes no port)
    return intervals.from_operator(port.operator, items)


TEXT_VIEW = {"overrides": 0}


def ace_obj_meaning(ace) -> dict:
    """Packet-set description of a live Ace, plus the facts the skip rules talk about.

    The entry *is* the line it renders (that is what a device gets): where the independent reader can read that line,
    action, protocol, ports, flag tokens and plain addresses are taken from the text; the sub-objects' public fields
    are used for what the text does not carry (group members) and as fallback. A field that differs between the two
    views is counted (a sub-object edited in place that kept stale fields shows up here).
    """
    from vcheck.oracle import reader  # pylint: disable=import-outside-toplevel

    src, sg, snc = addr_cubes(ace.srcaddr)
    dst, dg, dnc = addr_cubes(ace.dstaddr)
    m = {
        "action": ace.action, "proto": ace.protocol.number, "src": src, "dst": dst,
        "sport": port_set(ace.srcport), "dport": port_set(ace.dstport),
        "flags": frozenset(ace.option.flags),
        "group": sg or dg, "nc": (snc and not sg) or (dnc and not dg), "line": ace.line,
        "outside": "outside" in (port_set(ace.srcport), port_set(ace.dstport)),
    }
    if m["outside"]:
        return m
    try:
        sem = reader.read_ace(ace.line, ace.type)
    except (reader.ReadError, ValueError):
        return m
    text = {"action": sem["action"], "proto": sem["proto"],
            "sport": sem["sport"][2] if sem["sport"] else None, "dport": sem["dport"][2] if sem["dport"] else None,
            "flags": frozenset(sem["flags"])}
    if sem["src"][0] == "cube" and not sg:
        text["src"] = [tuple(sem["src"][1:])]
    if sem["dst"][0] == "cube" and not dg:
        text["dst"] = [tuple(sem["dst"][1:])]
    diff = [k for k, v in text.items() if (m[k] if k not in ("src", "dst") else [tuple(c) for c in m[k]]) != v]
    if diff:
        TEXT_VIEW["overrides"] += 1
        m["fields_disagree_with_text"] = diff
        for key in diff:
            m[key] = text[key]
        if "src" in diff or "dst" in diff:
            m["nc"] = (not sg and any(not bits.is_contiguous(c[1]) for c in m["src"])) or \
                      (not dg and any(not bits.is_contiguous(c[1]) for c in m["dst"]))
    return m


def truth(bottom: dict, top: dict) -> bool:
    """Same action and packets(bottom) inside packets(top)."""
    return bottom["action"] == top["action"] and packets.contained(bottom, top)


def skipped(bottom: dict, top: dict, skip) -> bool:
    skip = list(skip or [])
    if "addrgroup" in skip and (bottom["group"] or top["group"]):
        return True
    if "nc_wildcard" in skip and (bottom["nc"] or top["nc"]):
        return True
    return False


def exact_domain(m: dict) -> bool:
    """C11 domain: no groups, non-empty port sets, flags among the six TCP flags."""
    if m["group"] or m["outside"]:
        return False
    for key in ("sport", "dport"):
        if m[key] is not None and not m[key]:
            return False
    return m["flags"] <= set(names.TCP_FLAGS)


def is_vacuous(m: dict) -> bool:
    return packets.is_empty(m)


def full_cover_corner(bottom: dict, top: dict) -> bool:
    """Bottom without a port expression under a top expression covering 1..65535 (port 0 ambiguity)."""
    for key in ("sport", "dport"):
        if bottom[key] is None and top[key] is not None and top[key] == packets.FULL_PORTS:
            return True
    return False


# ------------------------------------------------------------------ generators


def _port_related(rng, top, small=None, multi=False):
    """Derive a bottom port expression text from the top's (op, operands, set) or None."""
    hi = small["ports"] if small else 65535
    roll = rng.random()
    if top is None:
        if roll < 0.5:
            return None
        return _rand_port_text(rng, small, multi)
    tset = top
    if roll < 0.15:
        return None
    if roll < 0.55 and tset:
        # contained: a sub-range or some member ports
        lo, hi_ = rng.choice(tset)
        a = rng.randint(lo, hi_)
        b = rng.randint(a, min(hi_, a + 50))
        kind = rng.random()
        if kind < 0.4:
            return f"eq {a}"
        if kind < 0.8:
            # a range between two members of the top set (spans a hole when the top lists separate ports)
            if len(tset) > 1 and rng.random() < 0.5:
                return f"range {tset[0][0]} {tset[-1][1]}"
            return f"range {a} {b}"
        if lo == 1:
            return f"lt {b + 1}" if b + 1 <= 65535 else f"eq {a}"
        if hi_ == hi == 65535:
            return f"gt {a - 1}" if a > 1 else f"eq {a}"
        return f"eq {a}"
    return _rand_port_text(rng, small, multi)


def _rand_port_text(rng, small=None, multi=False):
    hi = small["ports"] if small else 65535
    op = rng.choice(["eq", "eq", "neq", "lt", "gt", "range"])

    def val():
        if small:
            return rng.randint(1, hi)
        return rng.choice([1, 2, 20, 21, 22, 23, 80, 443, 1023, 1024, 65534, 65535, rng.randint(1, 65535)])

    if op in ("eq", "neq"):
        if multi and rng.random() < 0.35:  # IOS lists several ports: the set has holes
            vals = []
            for _ in range(rng.randint(2, 4)):
                v = val()
                if v not in vals:
                    vals.append(v)
            return f"{op} " + " ".join(str(v) for v in vals)
        return f"{op} {val()}"
    if op == "range":
        return f"range {val()} {val()}"
    v = val()
    if rng.random() < 0.05:
        v = 1 if op == "lt" else 65535
    return f"{op} {v}"


def _port_sem(text):
    if text is None:
        return None
    toks = text.split()
    return intervals.from_operator(toks[0], [int(t) for t in toks[1:]])


def derive_bottom(rng, top: dict, platform: str, small=None, kmax=3) -> dict:
    """A group-free bottom description derived field by field from an existing (group-free) top description."""
    from vcheck.oracle import reader  # pylint: disable=import-outside-toplevel

    def cube_of(text):
        sem = reader.read_addr(text.split(), 0)[0]
        return (sem[1], sem[2])

    def rel(text):
        ct = cube_of(text)
        if rng.random() < 0.7:
            cb = derive(rng, ct)[0]
            if small is not None:
                cb = _clamp(cb, small)
            if bits.ncwb_count(cb[1]) > 6:
                cb = ct
        else:
            cb = rand_cube(rng, kmax) if small is None else _small_cube(rng, small)
        return spell(rng, cb, platform, "Address")

    bot = {"action": top["action"] if rng.random() < 0.85 else ("deny" if top["action"] == "permit" else "permit")}
    if top["proto"] == 0:
        bot["proto"] = rng.choice([6, 17, 0, 1, 89, 115])
    else:
        bot["proto"] = top["proto"] if rng.random() < 0.8 else rng.choice([0, 6, 17, 1, 115, 112, 251])
    bot["src"], bot["src_items"] = rel(top["src"]), None
    bot["dst"], bot["dst_items"] = rel(top["dst"]), None
    for side in ("sport", "dport"):
        bot[side] = _port_related(rng, _port_sem(top.get(side)), small, platform == "ios") if bot["proto"] in (6, 17) else None
    if bot["proto"] == 6:
        if top.get("flags") and rng.random() < 0.25:
            extra = [f for f in names.TCP_FLAGS if f not in top["flags"]]
            bot["flags"] = rng.sample(top["flags"], 1) + (rng.sample(extra, 1) if extra else [])
        elif top.get("flags") and rng.random() < 0.6:
            bot["flags"] = rng.sample(top["flags"], rng.randint(1, len(top["flags"])))
        else:
            bot["flags"] = rng.sample(list(names.TCP_FLAGS), rng.randint(1, 2)) if rng.random() < 0.2 else []
    else:
        bot["flags"] = []
    bot["log"] = rng.choice(["", "", "log"])
    bot["log_first"] = rng.random() < 0.4
    return bot


def gen_related_pair(rng, platform: str, *, groups: bool, small=None, kmax=3) -> dict:
    """(top, bottom) ACE descriptions; bottom is derived field by field from top (about half contained)."""

    def addr_pair():
        ct = rand_cube(rng, kmax) if small is None else _small_cube(rng, small)
        if rng.random() < 0.65:
            cb, _ = derive(rng, ct)
            if small is not None:
                cb = _clamp(cb, small)
        else:
            cb = rand_cube(rng, kmax) if small is None else _small_cube(rng, small)
        return ct, cb

    def addr_text(cube, side_groups):
        if groups and rng.random() < side_groups:
            members = [cube] + [derive(rng, cube)[0] for _ in range(rng.randint(0, 3))]
            if small is not None:
                members = [_clamp(m, small) for m in members]
            members = [m for m in members if bits.ncwb_count(m[1]) <= 8]
            rng.shuffle(members)
            word = "object-group" if platform == "ios" else "addrgroup"
            name = rng.choice(["G1", "G2", "G3"])
            return f"{word} {name}", [spell(rng, m, platform, "Address") for m in members]
        return spell(rng, cube, platform, "Address"), None

    action_t = rng.choice(["permit", "deny"])
    action_b = action_t if rng.random() < 0.85 else ("deny" if action_t == "permit" else "permit")
    proto_t = rng.choice([6, 6, 6, 17, 0, 0, 1, 47, 112, 250])
    roll = rng.random()
    if proto_t == 0:
        proto_b = rng.choice([6, 17, 0, 1, 89, 115])
    elif roll < 0.8:
        proto_b = proto_t
    else:
        proto_b = rng.choice([0, 6, 17, 1, 115, 112, 251])
    st, sb = addr_pair()
    dt, db = addr_pair()
    top = {"action": action_t, "proto": proto_t}
    bot = {"action": action_b, "proto": proto_b}
    top["src"], top["src_items"] = addr_text(st, 0.3)
    top["dst"], top["dst_items"] = addr_text(dt, 0.3)
    bot["src"], bot["src_items"] = addr_text(sb, 0.3)
    bot["dst"], bot["dst_items"] = addr_text(db, 0.3)
    for side in ("sport", "dport"):
        multi = platform == "ios"
        top[side] = _rand_port_text(rng, small, multi) if proto_t in (6, 17) and rng.random() < 0.45 else None
        if proto_b in (6, 17):
            bot[side] = _port_related(rng, _port_sem(top[side]), small, multi)
        else:
            bot[side] = None
    top["flags"] = rng.sample(list(names.TCP_FLAGS), rng.randint(1, 3)) if proto_t == 6 and rng.random() < 0.25 else []
    if proto_b == 6:
        if top["flags"] and rng.random() < 0.25:
            # shares a flag with the top and has one the top lacks (overlapping, not contained)
            extra = [f for f in names.TCP_FLAGS if f not in top["flags"]]
            bot["flags"] = rng.sample(top["flags"], 1) + (rng.sample(extra, 1) if extra else [])
        elif top["flags"] and rng.random() < 0.6:
            bot["flags"] = rng.sample(top["flags"], rng.randint(1, len(top["flags"])))
        else:
            bot["flags"] = rng.sample(list(names.TCP_FLAGS), rng.randint(1, 2)) if rng.random() < 0.2 else []
    else:
        bot["flags"] = []
    for desc in (top, bot):
        desc["log"] = rng.choice(["", "", "", "log", "log-input"])
        desc["log_first"] = rng.random() < 0.4
    return {"top": top, "bottom": bot}


def _small_cube(rng, small):
    bits_n = small["bits"]
    roll = rng.random()
    if roll < 0.1:
        return (0, bits.ALL)
    base = small["base"] | rng.randrange(small["size"])
    if roll < 0.4:
        return bits.cube(base, 0)
    if roll < 0.75:
        return bits.cube(base, (1 << rng.randint(1, bits_n)) - 1)
    w = rng.randrange(1, small["size"])
    return bits.cube(base, w)


def _clamp(cube, small):
    v, w = cube
    if w == bits.ALL:
        return cube
    w &= small["size"] - 1
    v = small["base"] | (v & (small["size"] - 1))
    return bits.cube(v, w)


def unify_groups(descs: list, table: dict | None = None) -> dict:
    """Within one ACL a group name denotes one member list: the first occurrence defines it for all entries."""
    table = {} if table is None else table
    for desc in descs:
        for side in ("src", "dst"):
            text = desc.get(side) or ""
            toks = text.split()
            if len(toks) == 2 and toks[0] in ("object-group", "addrgroup"):
                if toks[1] not in table:
                    table[toks[1]] = list(desc.get(side + "_items") or [])
                desc[side + "_items"] = list(table[toks[1]])
    return table


def compose(desc: dict, platform: str, seq: int = 0, names_ok=False) -> str:
    pname = {6: "tcp", 17: "udp", 0: "ip", 1: "icmp", 47: "gre", 89: "ospf"}.get(desc["proto"], str(desc["proto"]))
    parts = [str(seq)] if seq else []
    parts += [desc["action"], pname, desc["src"]]
    if desc.get("sport"):
        parts.append(desc["sport"])
    parts.append(desc["dst"])
    if desc.get("dport"):
        parts.append(desc["dport"])
    flags = list(desc.get("flags") or [])
    if desc.get("log") and flags and desc.get("log_first"):
        parts.append(desc["log"])  # the log keyword in front of the flag tokens
        parts.extend(flags)
    else:
        parts.extend(flags)
        if desc.get("log"):
            parts.append(desc["log"])
    return " ".join(parts)


def build_ace(desc: dict, platform: str, seq: int = 0, **kwargs):
    """Construct the real Ace for a description and attach group members through the public setter."""
    from cisco_acl import Ace  # pylint: disable=import-outside-toplevel

    ace = Ace(compose(desc, platform, seq), platform=platform, max_ncwb=20, **kwargs)
    if desc.get("src_items"):
        ace.srcaddr.items = list(desc["src_items"])
    if desc.get("dst_items"):
        ace.dstaddr.items = list(desc["dst_items"])
    return ace


SMALL = {"base": 0x0A000000, "size": 16, "bits": 4, "ports": 6}


def small_world_packets(extra_cubes=()):
    """All packets of the small world: addresses of the /28 plus one outside, ports 1..6 plus one outside."""
    addrs = [SMALL["base"] | i for i in range(SMALL["size"])] + [0x0B000001]
    ports = list(range(1, SMALL["ports"] + 1)) + [7, 700, 65535]
    flagsets = [frozenset(), frozenset(["ack"]), frozenset(["syn"]), frozenset(["ack", "syn"]), frozenset(["fin", "rst"])]
    return addrs, ports, flagsets
