"""C15 Grouping, ungrouping and sorting never lose, duplicate or split entries; TCAM estimate.

Monitor: an event log of (operation, rendered lines, block structure, tcam_count) recorded by taps on
Acl.group / ungroup / sort / reverse / resequence / tcam_count and by the step driver; every entry
carries a unique token, so lines identify entries. An offline conservation checker walks the log.
"""

from __future__ import annotations

import itertools

from vcheck.checks.C13 import rand_cube, spell
from vcheck.gen import grammar
from vcheck.monitor import taps

PROPERTY = "C15"
LEVEL = "exploration"
BUDGET_S = {"quick": 50, "thorough": 700}
FLOOR = {"quick": 1000, "thorough": 10000}
MUST_REACH = ("events_checked", "group_ungroup_text_unchanged_judged", "block_integrity_judged", "sort_restores_judged",
              "tcam_judged", "tcam_calls_observed")
RULE = ("ACLs of 1..12 uniquely tagged entries with heading remarks placed anywhere (none before the first ACE, heading-only "
        "blocks, plain remarks inside blocks, duplicate headings, prefixes '= ', '== ', '#'), address groups with 0..4 members; "
        "histories: group / ungroup / regroup, every permutation of <= 5 top-level items (thorough) or random in-place "
        "permutations, reverse, sort with and without key/reverse, resequence then shuffle then sort, tcam_count at every step. "
        "judged = events of the log checked; distinct non-trivial = (platform, #items, #blocks, duplicate headings?, "
        "operation sequence shape)"
        " Round 4: member lists replaced in place between two TCAM estimates."
        " Round 5: group(prefix) again after blocks moved; one group name on both sides with different member counts."
        " Rounds 6-7: items assigned to themselves through the setter."
        " Round 8: loose remark appended behind the blocks; standard ACLs with group sources.")
ASSUMPTIONS = ["duplicate group headings are merged by Acl.group on purpose (CHANGELOG 3.2.4): with duplicates only the multiset of "
               "entries and the order inside each heading bucket are demanded", "permutations are applied through the list "
               "methods (in place); assigning Acl.items regroups and recreates the blocks (known finding "
               "group-by-rebuild-block-sequence, judged under C16/C17)"]

LOG = []
STATS = {"tcam_calls": 0}


def _flat(items):
    out = []
    for item in items:
        if type(item).__name__ == "AceGroup":
            out.extend(_flat(item.items))
        else:
            out.append(item)
    return out


def _body(acl):
    return [ln.strip() for ln in acl.line.split("\n")[1:] if ln.strip()]


def _blocks(acl):
    return [[i.line for i in item.items] if type(item).__name__ == "AceGroup" else [item.line] for item in acl.items]


def _tcam_formula(acl) -> int:
    total = 1
    for item in _flat(acl.items):
        if type(item).__name__ != "Ace":
            continue
        src = len(item.srcaddr.items) if item.srcaddr.addrgroup else 0
        dst = len(item.dstaddr.items) if item.dstaddr.addrgroup else 0
        total += (src or 1) * (dst or 1)
    return total


def _post_tcam(self, args, kwargs, result, exc, token):
    if exc is None and type(self).__name__ == "Acl":
        STATS["tcam_calls"] += 1
        LOG.append({"op": "tcam_call", "got": result, "want": _tcam_formula(self)})


def install():
    from cisco_acl import Acl  # pylint: disable=import-outside-toplevel

    taps.tap_method(Acl, "tcam_count", _post_tcam)


def _strip_seq(line):
    toks = line.split()
    return " ".join(toks[1:]) if toks and toks[0].isdigit() else line


def _record(acl, op):
    LOG.append({"op": op, "lines": _body(acl), "blocks": _blocks(acl), "tcam": acl.tcam_count(), "group_by": acl.group_by})


def check_log(ctx, case, base_lines, headings_distinct, prefix):
    """Offline checker over the recorded event log."""
    def content(lines):
        """ACEs and plain remarks as a multiset, headings as a set (duplicate headings are merged by design)."""
        plain, heads = [], set()
        for line in lines:
            toks = _strip_seq(line).split(None, 1)
            if toks and toks[0] == "remark" and len(toks) > 1 and toks[1].startswith(prefix):
                heads.add(toks[1])
            else:
                plain.append(_strip_seq(line))
        return sorted(plain), sorted(heads)

    want_multiset = content(base_lines)
    prev_lines = base_lines
    tcam0 = None
    blocks_ref = None
    numbered_text = None
    for n, ev in enumerate(LOG):
        ctx.count("events_checked")
        if ev["op"] == "tcam_call":
            ctx.count("tcam_judged")
            if ev["got"] != ev["want"]:
                ctx.violation(case, "tcam_count() differs from 1 + sum(|src members| or 1)*(|dst members| or 1)", ev)
            continue
        lines = ev["lines"]
        if content(lines) != want_multiset or (headings_distinct and len(lines) != len(base_lines)):
            ctx.violation(case, f"entries were lost or duplicated by {ev['op']}",
                          {"event": n, "before": base_lines, "after": lines})
            return
        if tcam0 is None:
            tcam0 = ev["tcam"]
        elif ev["tcam"] != tcam0:
            ctx.violation(case, f"tcam_count changed under {ev['op']}", {"before": tcam0, "after": ev["tcam"]})
        if ev["op"] in ("group", "ungroup", "regroup"):
            ctx.count("group_ungroup_text_unchanged_judged")
            if headings_distinct:
                if lines != prev_lines:
                    ctx.violation(case, f"{ev['op']} changed the rendered text although block headings are distinct",
                                  {"before": prev_lines, "after": lines})
                    return
            else:
                # order inside each heading bucket is kept
                if _buckets(lines, prefix) != _buckets(prev_lines, prefix):
                    ctx.violation(case, f"{ev['op']} changed the order inside a heading bucket",
                                  {"before": prev_lines, "after": lines})
                    return
            if ev["op"] in ("group", "regroup"):
                blocks_ref = [b for b in ev["blocks"]]
        elif ev["op"].startswith("perm") or ev["op"] in ("reverse", "sort", "sort-key", "sort-rev"):
            ctx.count("block_integrity_judged")
            if blocks_ref is not None:
                got = sorted(tuple(_strip_seq(x) for x in b) for b in ev["blocks"])
                want = sorted(tuple(_strip_seq(x) for x in b) for b in blocks_ref)
                if got != want:
                    ctx.violation(case, f"a block was split or reordered internally by {ev['op']}",
                                  {"blocks_before": blocks_ref, "blocks_after": ev["blocks"]})
                    return
                # flattened text = concatenation of the blocks in their new order
                flat = [x for b in ev["blocks"] for x in b]
                if flat != lines:
                    ctx.violation(case, "rendered text is not the concatenation of the blocks", {"lines": lines, "blocks": ev["blocks"]})
        elif ev["op"] == "resequence":
            numbered_text = list(lines)
            if [_strip_seq(x) for x in lines] != [_strip_seq(x) for x in prev_lines]:
                ctx.violation(case, "resequence changed the order of entries", {"before": prev_lines, "after": lines})
        elif ev["op"] == "sort-after-shuffle":
            ctx.count("sort_restores_judged")
            if numbered_text is not None and lines != numbered_text:
                ctx.violation(case, "sorting a permutation of the resequenced items does not restore the numbered order",
                              {"numbered": numbered_text, "after_sort": lines})
                return
        prev_lines = lines


def _buckets(lines, prefix):
    out = {"": []}
    name = ""
    for line in lines:
        toks = _strip_seq(line).split(None, 1)
        if toks and toks[0] == "remark" and len(toks) > 1 and toks[1].startswith(prefix):
            name = toks[1]
            out.setdefault(name, [])
            continue
        out[name].append(_strip_seq(line))
    return out


def execute(ctx, case: dict) -> None:
    import random  # pylint: disable=import-outside-toplevel

    from cisco_acl import Acl  # pylint: disable=import-outside-toplevel
    from vcheck.checks.C04 import attach_members  # pylint: disable=import-outside-toplevel

    del LOG[:]
    rng = random.Random(case["rseed"])
    prefix = case["prefix"]
    acl = Acl(case["text"], platform=case["platform"], max_ncwb=20)
    attach_members(acl, case.get("members", {}))
    base = _body(acl)
    heads = [x for x in (_strip_seq(b).split(None, 1) for b in base) if x[0] == "remark" and len(x) > 1 and x[1].startswith(prefix)]
    headings_distinct = len({h[1] for h in heads}) == len(heads)
    _record(acl, "start")
    try:
        for op in case["ops"]:
            if op == "group":
                acl.group(prefix)
                _record(acl, "group")
            elif op == "ungroup":
                acl.ungroup()
                _record(acl, "ungroup")
            elif op == "regroup":
                acl.ungroup()
                acl.group(prefix)
                _record(acl, "regroup")
            elif op == "append-remark":
                # a plain remark put behind the blocks through the list API: the top level now mixes blocks and a loose remark
                from cisco_acl import Remark  # pylint: disable=import-outside-toplevel

                acl.append(Remark("remark loose tail", platform=acl.platform))
                base[:] = _body(acl)
                LOG[:] = []
                _record(acl, "start")
            elif op == "assign-self":
                # the items assigned to themselves through the setter (plain and augmented assignment): nothing may get lost
                if rng.random() < 0.5:
                    acl.items = acl.items
                else:
                    acl.items += []
                _record(acl, "regroup")
            elif op == "group-again":
                acl.group(prefix)  # on the ACL as it stands (blocks possibly moved), without ungrouping first
                _record(acl, "regroup")
            elif op == "reverse":
                acl.reverse()
                _record(acl, "reverse")
            elif op == "shuffle":
                rng.shuffle(acl.items)
                _record(acl, "perm-shuffle")
            elif isinstance(op, list) and op[0] == "perm":
                items = list(acl.items)
                if len(op[1]) == len(items):
                    acl.items[:] = [items[i] for i in op[1]]
                    _record(acl, "perm")
            elif op == "rotate":
                if len(acl.items) > 1:
                    acl.insert(0, acl.pop())
                _record(acl, "perm-rotate")
            elif op == "sort":
                acl.sort()
                _record(acl, "sort")
            elif op == "sort-rev":
                acl.sort(reverse=True)
                _record(acl, "sort-rev")
            elif op == "sort-key":
                acl.sort(key=lambda o: o.line)
                _record(acl, "sort-key")
            elif op == "degroup-address":
                # an entry's group address becomes a plain address through the sub-object setter; tcam counts 1 for it from now on
                for ace in [i for i in _flat(acl.items) if type(i).__name__ == "Ace"]:
                    tgt = ace.srcaddr if ace.srcaddr.addrgroup else (ace.dstaddr if ace.dstaddr.addrgroup else None)
                    if tgt is not None and len(tgt.items) > 1:
                        tgt.line = "host 10.99.99.9"
                        base[:] = _body(acl)
                        LOG[:] = []
                        _record(acl, "start")
                        break
            elif op == "members-change":
                # the member list of a group address changes in place (the rendered text stays the same): the estimate follows
                for ace in [i for i in _flat(acl.items) if type(i).__name__ == "Ace"]:
                    tgt = ace.srcaddr if ace.srcaddr.addrgroup else (ace.dstaddr if ace.dstaddr.addrgroup else None)
                    if tgt is not None:
                        n_new = len(tgt.items) + rng.choice([1, 2, 3])
                        tgt.items = [f"host 10.77.{k}.1" if acl.platform == "ios" else f"10.77.{k}.1/32" for k in range(n_new)]
                        LOG[:] = []
                        _record(acl, "start")
                        ctx.count("member_lists_changed_between_estimates")
                        break
            elif op == "reseq-shuffle-sort":
                acl.resequence(rng.choice([10, 1, 100]), rng.choice([10, 1, 5]))
                _record(acl, "resequence")
                rng.shuffle(acl.items)
                _record(acl, "perm-shuffle")
                acl.sort()
                _record(acl, "sort-after-shuffle")
    except Exception as ex:  # pylint: disable=broad-except
        ctx.violation(case, "a grouping/sorting operation raised on a valid ACL", f"{type(ex).__name__}: {ex}")
    check_log(ctx, case, base, headings_distinct, prefix)
    if taps.TAP_ERRORS:
        raise RuntimeError("monitor error: " + taps.TAP_ERRORS[0])


def gen_case(rng, thorough=False):
    platform = rng.choice(["ios", "nxos"])
    prefix = rng.choice(["= ", "= ", "== ", "#"])
    n = rng.randint(1, 12)
    lines = []
    members = {}
    used_heads = []
    for idx in range(n):
        roll = rng.random()
        if roll < 0.3:
            if used_heads and rng.random() < 0.12:
                text = rng.choice(used_heads)  # duplicate heading
            else:
                text = f"{prefix}H{idx} {rng.choice(['web', 'db', 'x,y', 'a b'])}"
                if rng.random() < 0.3:  # distinct headings that share everything before the first comma
                    text = f"{prefix}C-1, {rng.choice(['web', 'db', 'dmz'])} servers {idx}"
                elif rng.random() < 0.15 and len(prefix.strip()) == 1:
                    text = f"{prefix}{prefix.strip()}A{idx}"  # '= =A3' / '# #A3': the prefix occurs twice
                used_heads.append(text)
            lines.append("remark " + text)
        elif roll < 0.4:
            stripped = prefix.strip()
            lines.append("remark " + rng.choice([f"plain{idx} note", f"plain{idx} =", f"{stripped * 5}{idx}", f"{stripped}end-of-{idx}",
                                                 f"{stripped}", f"x {prefix}{idx}"]))
        else:
            word = "object-group" if platform == "ios" else "addrgroup"
            proto = rng.choice(["tcp", "udp"])
            src = rng.choice(["any", f"host 10.0.0.{idx + 1}", f"{word} GS{idx}"])
            dst = rng.choice(["any", f"10.{idx}.0.0 0.0.255.255", f"{word} GD{idx}"])
            if src.startswith(word) and rng.random() < 0.3:
                dst = src  # one group name on both sides; the two address objects carry their own member lists
            lines.append(f"{rng.choice(['permit', 'deny'])} {proto} {src} {dst} eq {1000 + idx}")
            mem = {}
            if src.startswith(word):
                mem["src"] = [spell(rng, rand_cube(rng, 1), platform, "Address") for _ in range(rng.randint(0, 4))]
            if dst.startswith(word):
                mem["dst"] = [spell(rng, rand_cube(rng, 1), platform, "Address") for _ in range(rng.randint(0, 4))]
            if mem:
                members[str(idx)] = mem
    acl_type = "extended"
    if platform == "ios" and rng.random() < 0.1:
        # a standard ACL: source addresses only; an address group as source is accepted and has members like any other
        acl_type = "standard"
        new_lines, new_members = [], {}
        for idx, ln in enumerate(lines):
            if ln.startswith("remark"):
                new_lines.append(ln)
                continue
            src = rng.choice(["any", f"host 10.0.0.{idx + 1}", f"10.{idx}.0.0 0.0.255.255", f"object-group GS{idx}", f"object-group GS{idx}"])
            new_lines.append(f"{rng.choice(['permit', 'deny'])} {src}")
            if src.startswith("object-group"):
                new_members[str(idx)] = {"src": [spell(rng, rand_cube(rng, 1), platform, "Address") for _ in range(rng.randint(0, 4))]}
        lines, members = new_lines, new_members
    text = grammar.acl_header(platform, "C15", acl_type) + "\n" + "\n".join("  " + ln for ln in lines)
    ops = ["group"]
    for _ in range(rng.randint(1, 6)):
        ops.append(rng.choice(["reverse", "shuffle", "rotate", "sort-key", "sort-rev", "regroup", "shuffle", "reseq-shuffle-sort",
                               "group-again", "group-again", "assign-self"]))
    ops.append(rng.choice(["ungroup", "reseq-shuffle-sort", "ungroup"]))
    if members and rng.random() < 0.3:
        ops.insert(rng.randint(0, len(ops)), "degroup-address")
    if members and rng.random() < 0.4:
        ops.insert(rng.randint(1, len(ops)), "members-change")
    if rng.random() < 0.25:
        ops.insert(rng.randint(1, len(ops)), "append-remark")
    if rng.random() < 0.3 and "members-change" not in ops:
        ops = ["reseq-shuffle-sort", "group", "reseq-shuffle-sort", "ungroup"]
    return {"platform": platform, "prefix": prefix, "text": text, "members": members, "ops": ops,
            "rseed": rng.randrange(1 << 30)}


def run(ctx) -> None:
    install()
    rng = ctx.rng
    thorough = ctx.tier == "thorough"
    n_max = {"quick": 5000, "thorough": 80000}[ctx.tier]
    done = 0
    while done < n_max and not ctx.expired():
        case = gen_case(rng, thorough)
        cases = [case]
        # all permutations of the top-level items for small block counts
        n_heads = case["text"].count("remark " + case["prefix"])
        if n_heads and n_heads <= (4 if thorough else 3) and rng.random() < (0.5 if thorough else 0.15):
            from cisco_acl import Acl  # pylint: disable=import-outside-toplevel

            probe = Acl(case["text"], platform=case["platform"], max_ncwb=20)
            probe.group(case["prefix"])
            k = len(probe.items)
            if k <= 5:
                for perm in itertools.permutations(range(k)):
                    cases.append({**case, "ops": ["group", ["perm", list(perm)], "ungroup"]})
        for one in cases:
            e0 = ctx.counters.get("events_checked", 0)
            execute(ctx, one)
            done += 1
            shape = "".join(o[0] if isinstance(o, str) else "P" for o in one["ops"])
            ctx.judged(sig=(one["platform"], one["text"].count("\n"), n_heads, one["prefix"], shape[:8], bool(one["members"])),
                       nontrivial=n_heads > 0, n=max(1, ctx.counters.get("events_checked", 0) - e0),
                       sample=one if done % 200 == 1 else None)
    ctx.count("tcam_calls_observed", STATS["tcam_calls"])
    ctx.count("cases", done)


def replay(ctx, case: dict) -> None:
    install()
    execute(ctx, case)
    ctx.judged(sig=("replay",))
