"""C06 Rendered text is a fixed point of the parser at every object level.

Monitor: driver-level post-condition around the constructors of every exported class and around
acls()/addrgroups(): X(t).line = r, then X(r).line == r and X(r).data() == X(t).data() for native t;
two-step convergence and unchanged meaning (independent reader) for accepted foreign spellings.
"""

from __future__ import annotations

from vcheck.checks.C13 import rand_cube, spell
from vcheck.gen import grammar
from vcheck.oracle import bits, names, reader

PROPERTY = "C06"
LEVEL = "exploration"
BUDGET_S = {"quick": 50, "thorough": 700}
FLOOR = {"quick": 2000, "thorough": 40000}
MUST_REACH = ("native_fixpoints_judged", "foreign_convergence_judged", "config_level_judged", "structures_compared", "line_setter_reparses_judged")
RULE = ("objects of every exported class from the supported grammars: ports (5 operators, names/numbers), protocols (all "
        "names, 0..255), options (flag/log tokens), wildcards, addresses and address-group members in every spelling, IOS "
        "and NX-OS address groups with/without sequence numbers, remarks with arbitrary printable words (leading digits, "
        "keywords, punctuation, repeated blanks), extended ACEs (C01 grammar), standard ACEs, ACE groups, extended and "
        "standard ACLs (names with punctuation, numbered or not, indent ' ', '  ', '    ', tab, group_by) and the "
        "config-level acls()/addrgroups() x platform x version x switches. judged = objects taken through render -> "
        "re-parse -> render; distinct non-trivial = (class, platform, native?, spelling class, switches)"
        " Round 4: rendered text assigned to the line setter of a live object of the same class (text and data as for a new object)."
        " Round 5: lower-case nested group names."
        " Rounds 6-7: renderings much longer than the input; the same configuration text under another platform first."
        " Round 8: switch assigned on a live rendered object vs. an object built with it; sub-object edit then self-assignment of the text."
        " Round 10: the other protocol (tcp/udp) assigned to a live port that was already rendered (its own rendering is re-parsed under the new name table).")
ASSUMPTIONS = ["native = a spelling the platform's own configuration uses (IOS: any/host/A W/object-group; NX-OS: any/A/len/A W/"
               "addrgroup); prefix notation on IOS is an accepted foreign spelling (two-step convergence)",
               "data() is compared without uuid; IPv4Network values compare by value"]


LIVE = {}


def _build(cls_name, text, kwargs):
    import cisco_acl  # pylint: disable=import-outside-toplevel

    if cls_name in ("acls", "addrgroups", "aces"):
        kwargs = {k: v for k, v in kwargs.items() if not (cls_name == "aces" and k == "indent")}
        return getattr(cisco_acl, cls_name)(text, **kwargs)
    return getattr(cisco_acl, cls_name)(text, **kwargs)


def _line(obj):
    if isinstance(obj, list):
        return "\n".join(o.line for o in obj)
    return obj.line


def _data(obj):
    if isinstance(obj, list):
        return [o.data() for o in obj]
    return obj.data()


def _meaning(cls_name, text, kwargs):
    """Reader meaning of rendered text where the reader applies (Ace / Address), else None."""
    try:
        if cls_name == "Ace":
            return reader.meaning_full(reader.read_ace(text, kwargs.get("type", "extended")))
        if cls_name == "Address":
            return reader.read_addr(text.split(), 0)[0]
    except reader.ReadError:
        return "unreadable"
    return None


def _struct(cls_name, text, kwargs):
    """Reader view of numbering and naming: what must survive X(t).line (None when the reader does not apply)."""
    platform = kwargs.get("platform", "ios")
    try:
        if cls_name in ("AddrGroup", "addrgroups"):
            grp = reader.read_addrgroup(text, platform)
            return (grp["name"], [(m["seq"], m["addr"]) for m in grp["members"]])
        if cls_name == "AddressAg":
            mem = reader.read_group_member(text, platform)
            return (mem["seq"], mem["addr"])
        if cls_name in ("Acl", "acls"):
            acl = reader.read_acl(text, platform)
            items = acl["items"]
            group_by = kwargs.get("group_by")
            if group_by:
                # duplicate group headings are merged by design (scope decision 4.2): entries regroup under the first one
                seen, kept = set(), []
                for item in items:
                    if item["kind"] == "remark" and item["text"].startswith(group_by):
                        if item["text"] in seen:
                            continue
                        seen.add(item["text"])
                    kept.append(item)
                return (acl["name"], acl["type"], sorted((i["kind"], i["seq"]) for i in kept))
            return (acl["name"], acl["type"], [(i["kind"], i["seq"]) for i in items])
        if cls_name == "aces":
            lines = [ln for ln in text.split("\n") if ln.strip() and not ln.strip().startswith("ip access-list")]
            return [(i["kind"], i["seq"]) for i in (reader.read_item(ln, "extended") for ln in lines)]
        if cls_name == "AceGroup":
            return [(i["kind"], i["seq"]) for i in (reader.read_item(ln, kwargs.get("type", "extended"))
                                                     for ln in text.split("\n") if ln.strip())]
        if cls_name == "Remark":
            rem = reader.read_remark(text)
            return (rem["seq"], rem["text"])
    except (reader.ReadError, ValueError, IndexError):
        return None
    return None


def _diff(a, b, path=""):
    """First difference between two data() trees."""
    if type(a) != type(b):
        return f"{path}: {a!r} != {b!r}"
    if isinstance(a, dict):
        for key in sorted(set(a) | set(b)):
            if key not in a or key not in b:
                return f"{path}.{key}: missing on one side"
            d = _diff(a[key], b[key], f"{path}.{key}")
            if d:
                return d
        return None
    if isinstance(a, list):
        if len(a) != len(b):
            return f"{path}: length {len(a)} != {len(b)}"
        for n, (x, y) in enumerate(zip(a, b)):
            d = _diff(x, y, f"{path}[{n}]")
            if d:
                return d
        return None
    return None if a == b else f"{path}: {a!r} != {b!r}"


def execute(ctx, case: dict) -> None:
    cls_name, text, kwargs, native = case["cls"], case["text"], case["kwargs"], case["native"]
    if cls_name in ("acls", "addrgroups", "aces") and case.get("other_platform_first"):
        # the very same text was handed to the function under another platform just before (whatever that call did)
        try:
            _build(cls_name, text, dict(kwargs, platform=case["other_platform_first"]))
        except Exception:  # pylint: disable=broad-except
            pass
        ctx.count("same_text_other_platform_first")
    try:
        o1 = _build(cls_name, text, dict(kwargs))
    except Exception as ex:  # pylint: disable=broad-except
        ctx.violation(case, "a valid text was rejected", f"{type(ex).__name__}: {ex}")
        return
    r = _line(o1)
    d1 = _data(o1)
    # sequence numbers, names and types of the input survive the first parse (reader on input vs rendering)
    s_in, s_out = _struct(cls_name, text, kwargs), _struct(cls_name, r, kwargs)
    if s_in is not None and s_out is not None:
        ctx.count("structures_compared")
        if s_in != s_out:
            ctx.violation(case, "sequence numbers / names / entries of the input do not survive parsing and rendering",
                          {"input": str(s_in)[:400], "rendered": str(s_out)[:400]})
            return
    try:
        o2 = _build(cls_name, r, dict(kwargs))
    except Exception as ex:  # pylint: disable=broad-except
        ctx.violation(case, "rendered text is rejected by the same constructor", {"rendered": r, "error": f"{type(ex).__name__}: {ex}"})
        return
    r2 = _line(o2)
    if native:
        ctx.count("native_fixpoints_judged")
        if r2 != r:
            ctx.violation(case, "rendered text is not a fixed point of the parser", {"first": r, "second": r2})
            return
        diff = _diff(d1, _data(o2))
        if diff:
            ctx.violation(case, "re-parsed object exports different data", {"rendered": r, "difference": diff})
    else:
        ctx.count("foreign_convergence_judged")
        try:
            o3 = _build(cls_name, r2, dict(kwargs))
        except Exception as ex:  # pylint: disable=broad-except
            ctx.violation(case, "second rendering is rejected", {"rendered": r2, "error": f"{type(ex).__name__}: {ex}"})
            return
        if _line(o3) != r2:
            ctx.violation(case, "text is not stable from the first re-parse on", {"r1": r, "r2": r2, "r3": _line(o3)})
        m0, m1, m2 = (_meaning(cls_name, t, kwargs) for t in (text, r, r2))
        if m0 is not None and not (m0 == m1 == m2):
            ctx.violation(case, "a re-parse of a foreign spelling changed the meaning", {"input": m0, "r1": m1, "r2": m2})
    if native and cls_name not in ("acls", "addrgroups", "aces"):
        # the same parser reached through the `line` setter of a live object that held another text before:
        # nothing of the earlier text (number, members, flags) may survive
        key = (cls_name, repr(sorted(kwargs.items())))
        prev = LIVE.get(key)
        LIVE[key] = o2
        if prev is not None and hasattr(type(prev), "line") and getattr(type(prev), "line").fset is not None:
            try:
                prev.line = r
            except Exception as ex:  # pylint: disable=broad-except
                ctx.violation(case, "the line setter of a live object rejects text the constructor accepts",
                              {"rendered": r, "error": f"{type(ex).__name__}: {ex}"})
            else:
                ctx.count("line_setter_reparses_judged")
                if _line(prev) != r:
                    ctx.violation(case, "text assigned to the line of a live object renders differently than the same text in a new object",
                                  {"assigned": r, "renders": _line(prev)})
                else:
                    diff = _diff(d1, _data(prev))
                    if diff:
                        ctx.violation(case, "a live object re-parsed through its line setter exports different data than a new object",
                                      {"rendered": r, "difference": diff})
    if native and cls_name in ("Port", "Ace", "AceGroup", "Acl") and "port_nr" in kwargs:
        # the numeric switch assigned on a live object that was built (and rendered) with the other setting:
        # text and data must equal those of an object built with the final setting
        try:
            alt = _build(cls_name, text, dict(kwargs, port_nr=not kwargs["port_nr"]))
            _ = _line(alt)
            alt.port_nr = kwargs["port_nr"]
            ctx.count("switch_assigned_on_live_object")
            if _line(alt) != r:
                ctx.violation(case, "an object switched to this port_nr setting renders differently than one built with it",
                              {"built": r, "switched": _line(alt)})
        except (ValueError, TypeError, AttributeError):
            pass
    if native and cls_name == "Port" and kwargs.get("protocol") in ("tcp", "udp") and o2.operator:
        # round 10 (C06-10A): the protocol assigned on a live port that was already rendered. The setter re-parses the object's
        # own rendering under the new protocol: same numbers, names of the new table, and a fixed point like any other text
        other = "udp" if kwargs["protocol"] == "tcp" else "tcp"
        live = _build(cls_name, r, dict(kwargs))
        _ = _line(live)
        numbers = [int(i) for i in live.items]
        try:
            live.protocol = other
        except Exception as ex:  # pylint: disable=broad-except
            ctx.violation(case, "assigning the other protocol to a rendered live port raised: its own rendering was rejected",
                          {"rendered": r, "protocol": other, "error": f"{type(ex).__name__}: {ex}"})
        else:
            ctx.count("protocol_assigned_on_rendered_port")
            fresh = _build(cls_name, f"{live.operator} {' '.join(str(i) for i in numbers)}", dict(kwargs, protocol=other))
            if [int(i) for i in live.items] != numbers or _line(live) != _line(fresh):
                ctx.violation(case, "a rendered live port switched to the other protocol differs from one built with it",
                              {"rendered": r, "protocol": other, "numbers": numbers, "live_items": list(live.items),
                               "live": _line(live), "built": _line(fresh)})
            elif _build(cls_name, _line(live), dict(kwargs, protocol=other)).line != _line(live):
                ctx.violation(case, "text of a live port after a protocol switch is not a fixed point of the parser", _line(live))
    if native and cls_name == "Ace" and kwargs.get("type") != "standard" and " eq " in r:
        # ports removed through the sub-object, then the entry's own text assigned to it again: a re-parse like any other
        try:
            live = _build(cls_name, r, dict(kwargs))
            if live.dstport.operator:
                live.dstport.line = ""
                live.line = live.line
                again = _build(cls_name, live.line, dict(kwargs)).line
                ctx.count("self_assignment_after_subobject_edit")
                if again != live.line:
                    ctx.violation(case, "after an edit through a sub-object and assigning the entry's own text, the text is not a fixed point",
                                  {"text": live.line, "re-parsed": again})
        except (ValueError, TypeError):
            pass
    if cls_name in ("acls", "addrgroups", "aces"):
        ctx.count("config_level_judged")
        if cls_name != "aces" and len(o1) != case.get("n_objects", len(o1)):
            ctx.violation(case, "config-level function returned a different number of objects", len(o1))


# ------------------------------------------------------------------ generators


def _kw(rng, platform, version=None, switches=True):
    kw = {"platform": platform, "version": rng.choice(grammar.VERSIONS) if version is None else version}
    if switches:
        kw["port_nr"] = rng.random() < 0.4
        kw["protocol_nr"] = rng.random() < 0.4
    return kw


def _native_addr(rng, platform, allow_nc=True, allow_group=True):
    """Address text in the platform's own syntax (what the device prints)."""
    cube = rand_cube(rng, 3 if allow_nc else 0)
    if not allow_nc and not bits.is_contiguous(cube[1]):
        cube = bits.cube(cube[0], (1 << rng.randint(0, 31)) - 1)
    if allow_group and rng.random() < 0.12:
        return ("object-group " if platform == "ios" else "addrgroup ") + rng.choice(["G1", "NET_a", "x.y-z"])
    v, w = cube
    a = bits.int2ip(v)
    if w == bits.ALL:
        return "any"
    dirty = bits.int2ip(v | (rng.getrandbits(32) & w)) if rng.random() < 0.2 else a
    if platform == "ios":
        if w == 0:
            return rng.choice([f"host {a}", f"{a} 0.0.0.0"])
        return f"{dirty} {bits.int2ip(w)}"
    if w == 0:
        return rng.choice([f"{a}/32", f"host {a}", f"{a} 0.0.0.0"])
    if bits.is_contiguous(w):
        return rng.choice([f"{dirty}/{32 - bits.popcount(w)}", f"{dirty} {bits.int2ip(w)}"])
    return f"{dirty} {bits.int2ip(w)}"


def _remark_text(rng):
    words = [rng.choice(grammar.REMARK_WORDS + ["10", "20", "permit", "deny", "remark", "ip", "any", "!", "?x".replace("?", "q"), "a  b"])
             for _ in range(rng.randint(1, 6))]
    sep = rng.choice([" ", " ", "  ", "\t"])
    return sep.join(words)


def _acl_text(rng, platform, version, acl_type="extended", indent="  "):
    name = rng.choice(grammar.ACL_NAMES + ["A.B-c_1", "100", "web#1", "x" * 40])
    n = rng.randint(1, 8)
    numbered = rng.random() < 0.4
    lines = []
    seq = 0
    heading = rng.choice([None, None, "= "])
    for idx in range(n):
        if numbered:
            seq += rng.choice([1, 10])
        if rng.random() < 0.25:
            txt = _remark_text(rng)
            if heading and rng.random() < 0.5:
                txt = heading + txt
            lines.append((f"{seq} " if seq else "") + "remark " + txt)
        elif acl_type == "standard":
            addr = _native_addr(rng, "ios", allow_nc=True, allow_group=False)
            if rng.random() < 0.15 and addr.startswith("host "):
                addr = addr.split()[1]
            lines.append((f"{seq} " if seq else "") + f"{rng.choice(['permit', 'deny'])} {addr}" + rng.choice(["", "", " log"]))
        else:
            ace = grammar.gen_ace(rng, platform, version, foreign=False, allow_multi=platform == "ios",
                                  allow_neq_multi=platform == "ios", seq=seq, ws=rng.random() < 0.2)
            lines.append(ace["text"].strip() if ace["feats"]["native"] else ace["text"].strip())
    header = grammar.acl_header(platform, name, acl_type)
    return header + "\n" + "\n".join(indent + ln for ln in lines), heading


LONG_UDP = [4500, 138, 496, 137, 139, 42, 434, 162, 111, 9, 195, 177, 517, 514, 67, 68, 123, 161, 520, 513]


def _long_line_case(rng):
    """An IOS entry whose numeric spelling is short but whose rendering with names is long (well over 250 characters)."""
    src_ports = rng.sample(LONG_UDP, 10)
    dst_ports = rng.sample(LONG_UDP, 10)
    line = (f"4294967295 permit udp 10.123.234.101 0.255.255.255 eq {' '.join(map(str, src_ports))} "
            f"172.31.255.255 0.15.255.255 eq {' '.join(map(str, dst_ports))} dscp af11 log-input")
    kw = {"platform": "ios", "version": "", "port_nr": False, "protocol_nr": False}
    roll = rng.random()
    if roll < 0.4:
        return {"cls": "Ace", "text": line, "native": True, "kwargs": kw}
    if roll < 0.7:
        return {"cls": "Acl", "text": "ip access-list extended LONG\n  " + line + "\n  permit ip any any", "native": True, "kwargs": kw}
    return {"cls": "aces", "text": "ip access-list extended LONG\n  " + line + "\n  permit ip any any", "native": True,
            "kwargs": {"platform": "ios", "version": ""}}


def gen_case(rng):
    if rng.random() < 0.01:
        return _long_line_case(rng)
    platform = rng.choice(["ios", "nxos"])
    roll = rng.random()
    version = rng.choice(grammar.VERSIONS)
    if roll < 0.08:
        proto = rng.choice(["tcp", "udp"])
        port = grammar.gen_port(rng, proto, platform, version)
        return {"cls": "Port", "text": port["text"], "native": True,
                "kwargs": {"platform": platform, "version": version, "protocol": proto, "port_nr": rng.random() < 0.4}}
    if roll < 0.13:
        pin = grammar.proto_in_vocab(platform)
        text = rng.choice(sorted(pin)) if rng.random() < 0.5 else str(rng.randrange(256))
        return {"cls": "Protocol", "text": text, "native": True,
                "kwargs": {"platform": platform, "protocol_nr": rng.random() < 0.5, "has_port": rng.random() < 0.3}}
    if roll < 0.17:
        toks = rng.sample(list(names.TCP_FLAGS) + list(names.LOG_WORDS) + ["established", "fragments"], rng.randint(0, 4))
        return {"cls": "Option", "text": rng.choice([" ", "  "]).join(toks), "native": True, "kwargs": {"platform": platform}}
    if roll < 0.22:
        cube = rand_cube(rng, 6)
        dirty = cube[0] | (rng.getrandbits(32) & cube[1]) if rng.random() < 0.3 else cube[0]
        return {"cls": "Wildcard", "text": f"{bits.int2ip(dirty)} {bits.int2ip(cube[1])}", "native": True,
                "kwargs": {"platform": platform, "max_ncwb": rng.choice([16, 8, 30])}}
    if roll < 0.32:
        if rng.random() < 0.7:
            return {"cls": "Address", "text": _native_addr(rng, platform), "native": True, "kwargs": {"platform": platform}}
        cube = rand_cube(rng, 0)
        if not bits.is_contiguous(cube[1]):
            cube = bits.cube(cube[0], 255)
        plen = 32 - bits.popcount(cube[1])
        dirty = cube[0] | (rng.getrandbits(32) & cube[1]) if rng.random() < 0.3 else cube[0]
        return {"cls": "Address", "text": f"{bits.int2ip(dirty)}/{plen}", "native": platform == "nxos",
                "kwargs": {"platform": platform}}
    if roll < 0.40:
        cube = rand_cube(rng, 2 if platform == "nxos" else 0)
        text = spell(rng, cube, platform, "AddressAg")
        if text is None:
            text = "host 10.0.0.1"
        if rng.random() < 0.4:
            text = f"{rng.randint(1, 4294967295)} {text}"
        native = not (platform == "ios" and "/" in text)
        if platform == "ios" and rng.random() < 0.1:
            text, native = "group-object " + rng.choice(["G1", "n.2", "prod-dmz", "branch-office", "top", "t", "object", "group-object-2"]), True
        return {"cls": "AddressAg", "text": text, "native": native, "kwargs": {"platform": platform}}
    if roll < 0.48:
        members = []
        native = True
        for _ in range(rng.randint(1, 8)):
            cube = rand_cube(rng, 2 if platform == "nxos" else 0)
            if cube[1] == bits.ALL and platform == "ios":
                continue
            text = spell(rng, cube, platform, "AddressAg")
            if text is None:
                continue
            if platform == "ios" and "/" in text:
                native = False
            if rng.random() < 0.4:
                text = f"{rng.randint(1, 100000)} {text}"
            members.append(text)
        if not members:
            members = ["host 1.1.1.1"]
        indent = rng.choice([" ", "  ", "    ", "\t"])
        name = rng.choice(["G1", "NET-A", "x_1.2", "A" * 30])
        header = f"object-group network {name}" if platform == "ios" else f"object-group ip address {name}"
        text = header + "\n" + "\n".join(indent + m for m in members)
        use_cfg = rng.random() < 0.4
        if use_cfg:
            return {"cls": "addrgroups", "text": text, "native": native, "n_objects": 1,
                    "kwargs": {"platform": platform, "indent": indent}}
        return {"cls": "AddrGroup", "text": text, "native": native, "kwargs": {"platform": platform, "indent": indent}}
    if roll < 0.56:
        seq = rng.choice([0, 0, 1, 10, 4294967295])
        return {"cls": "Remark", "text": (f"{seq} " if seq else "") + "remark " + _remark_text(rng), "native": True,
                "kwargs": {"platform": platform}}
    if roll < 0.72:
        foreign = rng.random() < 0.25
        ace = grammar.gen_ace(rng, platform, version, foreign=foreign, allow_neq_multi=True)
        kw = _kw(rng, platform, version)
        return {"cls": "Ace", "text": ace["text"], "native": ace["feats"]["native"], "kwargs": kw}
    if roll < 0.76:
        addr = _native_addr(rng, "ios", allow_group=False)
        text = f"{rng.choice(['', '10 '])}{rng.choice(['permit', 'deny'])} {addr}{rng.choice(['', ' log'])}"
        return {"cls": "Ace", "text": text, "native": True, "kwargs": {"platform": "ios", "type": "standard"}}
    if roll < 0.82:
        text, _ = _acl_text(rng, platform, version)
        body = "\n".join(ln.strip() for ln in text.split("\n")[1:])
        return {"cls": "AceGroup", "text": body, "native": True, "kwargs": _kw(rng, platform, version)}
    acl_type = "standard" if platform == "ios" and rng.random() < 0.2 else "extended"
    indent = rng.choice([" ", "  ", "    ", "\t"])
    text, heading = _acl_text(rng, platform, version, acl_type, indent)
    kw = _kw(rng, platform, version)
    kw["indent"] = indent
    if heading and rng.random() < 0.6:
        kw["group_by"] = heading
    roll = rng.random()
    if roll < 0.12 and acl_type == "extended" and not kw.get("group_by"):
        # aces(): every permit/deny/remark line of the configuration, repeated lines included
        body = text.split("\n")
        if len(body) > 2 and rng.random() < 0.6:
            body.insert(rng.randint(2, len(body)), rng.choice(body[1:]))  # the same line twice
        kw2 = {k: v for k, v in kw.items() if k != "group_by"}
        return {"cls": "aces", "text": "\n".join(body), "native": True, "kwargs": kw2}
    if roll < 0.42:
        return {"cls": "acls", "text": text, "native": True, "n_objects": 1, "kwargs": kw}
    return {"cls": "Acl", "text": text, "native": True, "kwargs": kw}


def _spelling(case) -> str:
    text = case["text"]
    feats = []
    if "/" in text:
        feats.append("pfx")
    if "host " in text:
        feats.append("host")
    if "group" in text:
        feats.append("grp")
    if "\t" in text or "  " in text.strip():
        feats.append("ws")
    if any(op in text.split() for op in names.OPERATORS):
        feats.append("port")
    if text.split() and text.split()[0].isdigit():
        feats.append("seq")
    return "+".join(feats)


def run(ctx) -> None:
    rng = ctx.rng
    n_max = {"quick": 5000, "thorough": 80000}[ctx.tier]
    done = 0
    while done < n_max and not ctx.expired():
        case = gen_case(rng)
        if case["cls"] in ("acls", "addrgroups", "aces") and rng.random() < 0.3:
            case["other_platform_first"] = rng.choice([p for p in ("ios", "nxos", "cisco_nxos", "asa") if p != case["kwargs"].get("platform")])
        execute(ctx, case)
        done += 1
        kw = case["kwargs"]
        ctx.judged(sig=(case["cls"], kw.get("platform"), case["native"], _spelling(case), kw.get("port_nr"),
                        kw.get("protocol_nr"), kw.get("indent"), bool(kw.get("group_by")), kw.get("type"), case.get("pre")),
                   nontrivial=True, sample=case if done % 500 == 1 else None)
    ctx.count("cases", done)


def replay(ctx, case: dict) -> None:
    execute(ctx, case)
    ctx.judged(sig=("replay",))
