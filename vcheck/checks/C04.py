"""C04 Deleting shadowed entries never changes any packet's permit/deny decision.

Monitor: pre/post tap on Acl.delete_shadow (before/after translation validation, one ACL = one
program). Oracles: (i) list-edit model (result = original minus a subsequence of ACE positions,
regrouped by the reference grouping), (ii) exact cover witness for every removed ACE, (iii) packet
enumeration inside every removed ACE (first-match decision before/after), (iv) report equality and
idempotence. (ii) and (iii) share only the packet-match function.
"""

from __future__ import annotations

from vcheck.checks import C03, shadow_common as sc
from vcheck.checks.C11 import _canon
from vcheck.gen import grammar
from vcheck.monitor import taps
from vcheck.oracle import bits, intervals, packets

PROPERTY = "C04"
LEVEL = "translation_validation"
BUDGET_S = {"quick": 50, "thorough": 700}
FLOOR = {"quick": 300, "thorough": 5000}
MUST_REACH = ("delete_shadow_judged", "acls_with_removals", "removed_aces_with_cover_witness", "packets_evaluated",
              "second_call_judged")
RULE = ("small-world ACLs (addresses from one /28, ports 1..6, protocols ip/tcp/udp/icmp/gre, flag subsets) of 2..14 lines "
        "with about 15% exact duplicates, interleaved permits/denies, remarks, group headings, sequence-numbered or not, "
        "flat or grouped by remark prefix, with address groups (1..4 members) and big-world ACLs; every skip setting. "
        "judged = delete_shadow calls monitored (each is one program); distinct non-trivial = (#lines, #removed, "
        "duplicates?, grouped?, numbered?, members?, skip) with at least one removal"
        " Round 4: regroup by a second prefix / ungroup before the removal; block structure compared with the blocks observed before the call."
        " Round 5: two wide chains per run (14-bit non-contiguous wildcard / subnet / small wildcard).")
ASSUMPTIONS = ["cover theorem: if every removed ACE is inside a same-action ACE that stood above it, no first match changes",
               "duplicate group headings are merged by Acl.group by design (CHANGELOG 3.2.4)"]

FOUND = []
STATS = {}
RNG = {"r": None}


def _bump(name, n=1):
    STATS[name] = STATS.get(name, 0) + n


def _flat(items):
    out = []
    for item in items:
        if type(item).__name__ == "AceGroup":
            out.extend(_flat(item.items))
        else:
            out.append(item)
    return out


def _blocks(acl):
    return [[i.line for i in item.items] if type(item).__name__ == "AceGroup" else item.line for item in acl.items]


def _ref_grouping(flat_items, group_by):
    """Reference model of Acl.group on a flat list of (line, is_remark, remark_text)."""
    if not group_by:
        return [ln for ln, _, _ in flat_items]
    buckets = {"": []}
    name = ""
    for line, is_remark, text in flat_items:
        if is_remark and text.startswith(group_by):
            name = text
            if text not in buckets:
                buckets[text] = [line]
            continue
        buckets[name].append(line)
    return [lines for lines in buckets.values() if lines]


def _snapshot(acl, skip):
    flat = _flat(acl.items)
    items = []
    for obj in flat:
        if type(obj).__name__ == "Ace":
            items.append({"line": obj.line, "ace": True, "m": sc.ace_obj_meaning(obj), "uuid": obj.uuid})
        else:
            items.append({"line": obj.line, "ace": False, "text": obj.text, "uuid": obj.uuid})
    return {"items": items, "group_by": acl.group_by, "blocks": _blocks(acl), "name": acl.name, "head": acl.line.split("\n")[0]}


def _pre(self, args, kwargs):
    skip = kwargs.get("skip", args[0] if args else None)
    snap = _snapshot(self, skip)
    snap["report_before"] = self.shading(skip)
    return snap


def _sample_inside(m, rng, limit=400):
    """Packets inside the product set of one ACE meaning."""
    def addrs(cubes):
        out = []
        for v, w in cubes:
            free = [i for i in range(32) if (w >> i) & 1]
            if len(free) <= 5:
                for j in range(1 << len(free)):
                    a = v
                    for n, pos in enumerate(free):
                        if (j >> n) & 1:
                            a |= 1 << pos
                    out.append(a)
            else:
                out.extend(v | (rng.getrandbits(32) & w) for _ in range(12))
                out.extend([v, v | w, sc.SMALL["base"] | rng.randrange(16), sc.SMALL["base"] | rng.randrange(16)])
                out.extend((sc.SMALL["base"] | i) for i in range(16) if bits.member((v, w), sc.SMALL["base"] | i))
        return out[:40] or []

    def ports(pset):
        if pset is None:
            return [1, 2, 3, 4, 5, 6, 7, 700, 65535]
        vals = []
        for lo, hi in pset[:6]:
            vals.extend({lo, hi, min(hi, lo + 1), (lo + hi) // 2})
        return sorted(set(vals))[:14]

    if packets.is_empty(m):
        return []
    protos = [m["proto"]] if m["proto"] else [6, 17, 1, 47]
    src, dst = addrs(m["src"]), addrs(m["dst"])
    flagsets = [frozenset(), frozenset(["ack"]), frozenset(["syn"]), frozenset(["fin", "rst"]), frozenset(["psh", "urg", "ack"])]
    out = []
    for _ in range(limit):
        proto = rng.choice(protos)
        if not src or not dst:
            break
        flags = rng.choice(flagsets) if proto == 6 else frozenset()
        if m["flags"] and proto == 6 and rng.random() < 0.8:
            flags = frozenset(rng.sample(sorted(m["flags"]), 1)) | flags
        sport = rng.choice(ports(m["sport"])) if proto in (6, 17) else 0
        dport = rng.choice(ports(m["dport"])) if proto in (6, 17) else 0
        out.append((proto, rng.choice(src), sport, rng.choice(dst), dport, flags))
    return out


def _post(self, args, kwargs, result, exc, token):
    if exc is not None:
        FOUND.append({"what": "delete_shadow raised on a valid ACL", "detail": repr(exc)})
        return
    skip = kwargs.get("skip", args[0] if args else None)
    snap = token
    _bump("delete_shadow_judged")
    old = snap["items"]
    new_flat = _flat(self.items)
    new_lines = [o.line for o in new_flat]
    if [_canon(x) for x in new_lines] != new_lines or any(_canon(i["line"]) != i["line"] for i in old):
        # IOS 'A.B.C.D/0' renders '0.0.0.0 255.255.255.255' but the internal copy renders 'any' (known
        # finding ios-slash0-copy, judged by C16): the re-spelling is not judged here, lines are compared
        # with the all-ones wildcard spelled 'any'
        _bump("any_respelling_not_judged")
    new_lines = [_canon(x) for x in new_lines]
    for item in old:
        item["line"] = _canon(item["line"])
    # (i) list edit: remaining lines are a subsequence of the original; removed positions are ACEs only
    removed = []
    pos = 0
    for idx, item in enumerate(old):
        if pos < len(new_lines) and new_lines[pos] == item["line"]:
            pos += 1
        else:
            removed.append(idx)
    if pos != len(new_lines):
        FOUND.append({"what": "the result is not the original item list with entries removed (something was added, changed or reordered)",
                      "detail": {"before": [i["line"] for i in old], "after": new_lines}})
        return
    for idx in removed:
        if not old[idx]["ace"]:
            FOUND.append({"what": "delete_shadow removed a remark", "detail": old[idx]["line"]})
    if removed:
        _bump("acls_with_removals")
    # name / header / grouping
    if self.line.split("\n")[0] != snap["head"]:
        FOUND.append({"what": "delete_shadow changed the ACL header", "detail": [snap["head"], self.line.split("\n")[0]]})
    kept = [(it["line"], not it["ace"], it.get("text", "")) for n, it in enumerate(old) if n not in removed]
    want_blocks = _ref_grouping(kept, snap["group_by"])
    got_blocks = [[_canon(x) for x in b] if isinstance(b, list) else _canon(b) for b in _blocks(self)]
    if got_blocks != want_blocks or self.group_by != snap["group_by"]:
        FOUND.append({"what": "grouping of the remaining items changed", "detail": {"got": got_blocks, "want": want_blocks}})
    # the same clause from what was observed before the call alone (not through the object's own group_by attribute):
    # the blocks as they stood, minus the removed entries
    pos_blocks, n_flat = [], 0
    for blk in snap["blocks"]:
        if isinstance(blk, list):
            keep = [_canon(ln) for k, ln in enumerate(blk) if n_flat + k not in removed]
            n_flat += len(blk)
            if keep:
                pos_blocks.append(keep)
        else:
            if n_flat not in removed:
                pos_blocks.append(_canon(blk))
            n_flat += 1
    _bump("observed_block_structure_compared")
    if got_blocks != pos_blocks:
        FOUND.append({"what": "grouping of the remaining items changed (blocks as observed before the call, minus the removed entries)",
                      "detail": {"got": got_blocks, "want": pos_blocks, "group_by_attribute": self.group_by}})
    # (ii) cover witness for every removed ACE
    rules_before = [it["m"] for it in old if it["ace"]]
    for idx in removed:
        if not old[idx]["ace"]:
            continue
        m = old[idx]["m"]
        if m["outside"]:
            continue
        witness = None
        for j in range(idx):
            if old[j]["ace"] and not old[j]["m"]["outside"] and sc.truth(m, old[j]["m"]):
                witness = j
                break
        if witness is None:
            FOUND.append({"what": "a removed ACE is not covered by any same-action ACE above it",
                          "detail": {"removed": old[idx]["line"], "acl": [i["line"] for i in old], "skip": skip}})
        else:
            _bump("removed_aces_with_cover_witness")
    # (iii) packets inside every removed ACE: first-match decision before == after
    if removed:
        rules_after = [it["m"] for n, it in enumerate(old) if it["ace"] and n not in removed]
        rng = RNG["r"]
        for idx in removed:
            if not old[idx]["ace"]:
                continue
            for pkt in _sample_inside(old[idx]["m"], rng, limit=150):
                _bump("packets_evaluated")
                if packets.decide(rules_before, pkt) != packets.decide(rules_after, pkt):
                    FOUND.append({"what": "a packet's first-match decision changed after delete_shadow",
                                  "detail": {"packet": [pkt[0], bits.int2ip(pkt[1]), pkt[2], bits.int2ip(pkt[3]), pkt[4], sorted(pkt[5])],
                                             "before": packets.decide(rules_before, pkt), "after": packets.decide(rules_after, pkt),
                                             "removed": old[idx]["line"], "acl": [i["line"] for i in old]}})
                    break
    # (iv) report equality
    if dict(result) != dict(snap["report_before"]):  # both come from internal copies: same spelling
        FOUND.append({"what": "the returned report differs from shading() taken just before",
                      "detail": {"returned": result, "shading_before": snap["report_before"]}})
    # uuids of kept items unchanged? (identity is C16's subject; counted only)
    kept_uuids = [it["uuid"] for n, it in enumerate(old) if n not in removed]
    if kept_uuids != [o.uuid for o in new_flat]:
        _bump("kept_items_uuid_changed_not_judged")


def install():
    from cisco_acl import Acl  # pylint: disable=import-outside-toplevel

    taps.tap_method(Acl, "delete_shadow", _post, pre=_pre)


def _drain(case, ctx):
    for item in FOUND:
        ctx.violation(case, item["what"], item["detail"])
    del FOUND[:]
    for item in C03.FOUND:
        ctx.violation(case, "[ambient C03 monitor] " + item["what"], item["detail"])
    del C03.FOUND[:]
    if taps.TAP_ERRORS:
        raise RuntimeError("monitor error: " + taps.TAP_ERRORS[0])


def attach_members(acl, members: dict):
    flat = _flat(acl.items)
    for idx, mem in members.items():
        item = flat[int(idx)]
        if mem.get("src"):
            item.srcaddr.items = list(mem["src"])
        if mem.get("dst"):
            item.dstaddr.items = list(mem["dst"])


def execute(ctx, case: dict) -> None:
    from cisco_acl import Acl  # pylint: disable=import-outside-toplevel

    acl = Acl(case["text"], platform=case["platform"], max_ncwb=20, group_by=case.get("group_by", ""), **case.get("kwargs", {}))
    attach_members(acl, case.get("members", {}))
    skip = case.get("skip")
    if case.get("regroup") is not None:
        # history: the ACL is regrouped by another prefix (or ungrouped) before the removal
        try:
            acl.group(case["regroup"]) if case["regroup"] else acl.ungroup()
            ctx.count("regrouped_before_delete")
        except (ValueError, TypeError):
            pass
    if case.get("pre_query"):
        # history: ask for the report first, change group members in place, then delete (a remembered report would be stale)
        try:
            acl.shading(skip)
        except Exception:  # pylint: disable=broad-except
            pass
        attach_members(acl, case.get("members_after", {}))
        ctx.count("member_change_between_report_and_delete")
    try:
        acl.delete_shadow(skip) if skip is not None else acl.delete_shadow()
    except Exception:  # pylint: disable=broad-except
        _drain(case, ctx)
        return
    # second removal finds nothing and changes nothing
    text = acl.line
    blocks = _blocks(acl)
    n0 = len(FOUND)
    try:
        again = acl.delete_shadow(skip) if skip is not None else acl.delete_shadow()
    except Exception as ex:  # pylint: disable=broad-except
        ctx.violation(case, "second delete_shadow raised", repr(ex))
    else:
        ctx.count("second_call_judged")
        if again:
            FOUND.append({"what": "a second delete_shadow still finds shadowed entries", "detail": {"report": again, "acl": text}})
        if acl.line != text or _blocks(acl) != blocks:
            FOUND.append({"what": "a second delete_shadow changed the ACL", "detail": {"before": text, "after": acl.line}})
    _ = n0
    _drain(case, ctx)


def gen_case(rng, platform):
    n = rng.randint(2, 14)
    small = sc.SMALL if rng.random() < 0.85 else None
    groups = rng.random() < 0.4
    heading = rng.choice(["", "", "= ", "## "])
    heading2 = rng.choice([None, None, None, "-- ", "= ", ""])  # regroup by this one before the removal
    if heading2 == heading:
        heading2 = None
    numbered = rng.random() < 0.4
    shuffled_numbers = numbered and rng.random() < 0.3
    lines = []
    descs = []
    members = {}
    table = {}
    seq = 0
    while len(lines) < n:
        if numbered:
            seq = seq + rng.choice([1, 5, 10]) if not shuffled_numbers else rng.randint(1, 5000)
        if rng.random() < 0.18:
            head = heading if heading and rng.random() < 0.6 else None
            if heading2 and rng.random() < 0.4:
                head = heading2
            lines.append(grammar.gen_remark(rng, seq=seq, heading=head,
                                            uniq=f"u{len(lines)}" if rng.random() < 0.9 else "")["text"])
            continue
        roll = rng.random()
        if descs and roll < 0.15:
            desc = dict(rng.choice(descs))
        elif descs and roll < 0.6:
            top = rng.choice(descs)
            if groups and rng.random() < 0.4:
                desc = sc.gen_related_pair(rng, platform, groups=True, small=small)["bottom"]
            else:
                base = dict(top)
                if base.get("src_items") or base.get("dst_items"):
                    desc = sc.gen_related_pair(rng, platform, groups=groups, small=small)["top"]
                else:
                    desc = sc.derive_bottom(rng, base, platform, small)
        else:
            desc = sc.gen_related_pair(rng, platform, groups=groups, small=small)["top"]
        desc = dict(desc)
        sc.unify_groups([desc], table)
        descs.append(desc)
        idx = len(lines)
        lines.append(sc.compose(desc, platform, seq=seq))
        if desc.get("src_items") or desc.get("dst_items"):
            members[str(idx)] = {"src": desc.get("src_items"), "dst": desc.get("dst_items")}
    text = grammar.acl_header(platform, "DS") + "\n" + "\n".join("  " + ln for ln in lines)
    case = {"platform": platform, "text": text, "members": members, "group_by": heading,
            "skip": rng.choice([None, None, None, [], ["addrgroup"], ["nc_wildcard"], ["addrgroup", "nc_wildcard"]])}
    if heading2 is not None:
        case["regroup"] = heading2
    if rng.random() < 0.3:
        case["kwargs"] = {"port_nr": rng.random() < 0.5, "protocol_nr": rng.random() < 0.7}
    if members and rng.random() < 0.5:
        from vcheck.checks.C13 import spell  # pylint: disable=import-outside-toplevel

        newtab = {name: [spell(rng, sc._small_cube(rng, sc.SMALL), platform, "Address") for _ in range(rng.randint(1, 3))]
                  for name in table}
        after = {}
        # per entry, from the group names of the composed lines (one member list per group name)
        for idx in members:
            toks = lines[int(idx)].split()
            names_in_line = [toks[n + 1] for n, t in enumerate(toks[:-1]) if t in ("object-group", "addrgroup")]
            sides = [sd for sd in ("src", "dst") if members[idx].get(sd)]
            after[idx] = {sd: list(newtab.get(nm, [])) for sd, nm in zip(sides, names_in_line)}
        case["pre_query"], case["members_after"] = True, after
    return case


def run(ctx) -> None:
    C03.install()  # ambient soundness monitor on every internal shadow_of call
    install()
    RNG["r"] = ctx.rng.__class__(ctx.seed * 77 + ctx.shard)
    rng = ctx.rng
    n_max = {"quick": 1200, "thorough": 20000}[ctx.tier]
    done = 0
    programs = 0
    if ctx.shard in (2, 9):
        # wide entries: a 14-bit non-contiguous wildcard (16384 networks) above a contiguous subnet of it and a small
        # non-contiguous wildcard inside that subnet (chains of covers; products of several hundred thousand network pairs)
        lines = {2: ["permit ip 10.0.0.0 63.255.0.255 any", "permit ip 10.5.0.0 0.0.0.255 any", "deny ip 10.5.0.7 0.0.0.0 any",
                     "permit ip 10.5.0.0 0.0.0.182 any", "permit ip 10.6.1.0 0.0.0.255 any"],
                 9: ["deny tcp any 172.16.0.0 0.15.85.170 eq 80", "deny tcp any 172.16.0.0 0.15.85.170 eq 80",
                     "permit tcp any 172.17.1.2 0.0.0.0 eq 80", "deny tcp any 172.18.0.0 0.1.84.34 eq 80",
                     "deny tcp any host 172.18.4.2 eq 80"]}[ctx.shard]
        case = {"platform": "ios", "text": grammar.acl_header("ios", "WIDE") + "\n" + "\n".join("  " + ln for ln in lines),
                "members": {}, "group_by": "", "skip": None}
        execute(ctx, case)
        ctx.count("wide_chains")
        ctx.judged(sig=("wide-chain", ctx.shard), nontrivial=True, sample=case)
        done += 1
    if ctx.shard == 3:
        # non-contiguous wildcards on the same side that share the base: covered ones and ones that merely look smaller
        lines = ["permit ip 10.0.0.0 0.0.2.3 any", "permit ip 10.0.0.0 0.0.1.1 any", "permit ip 10.0.0.0 0.0.2.1 any",
                 "deny tcp any 172.16.0.0 0.0.5.5", "deny tcp any 172.16.0.0 0.0.3.1", "deny tcp any 172.16.0.0 0.0.4.1",
                 "permit udp 10.1.0.0 0.0.6.6 any eq 53", "permit udp 10.1.0.0 0.0.5.0 any eq 53", "permit udp 10.1.0.0 0.0.2.2 any eq 53"]
        case = {"platform": "ios", "text": grammar.acl_header("ios", "NCW") + "\n" + "\n".join("  " + ln for ln in lines),
                "members": {}, "group_by": "", "skip": None}
        execute(ctx, case)
        ctx.count("non_contiguous_same_base_acls")
        ctx.judged(sig=("nc-same-base",), nontrivial=True, sample=case)
        done += 1
    while done < n_max and not ctx.expired():
        platform = rng.choice(["ios", "nxos"])
        case = gen_case(rng, platform)
        r0, w0 = STATS.get("acls_with_removals", 0), STATS.get("removed_aces_with_cover_witness", 0)
        execute(ctx, case)
        done += 1
        programs += 1
        removed = STATS.get("removed_aces_with_cover_witness", 0) - w0
        lines = case["text"].split("\n")[1:]
        ctx.judged(sig=(platform, len(lines), removed, len(set(lines)) != len(lines), bool(case["group_by"]),
                        lines[0].split()[0].isdigit(), bool(case["members"]), repr(case["skip"])),
                   nontrivial=STATS.get("acls_with_removals", 0) > r0, n=1,
                   sample=case if removed and done % 60 == 0 else None)
    for key, val in STATS.items():
        ctx.count(key, val)
    for key, val in C03.STATS.items():
        ctx.count("ambient_" + key, val)
    ctx.count("cases", done)
    ctx.extra["programs"] = programs
    ctx.extra["removed"] = STATS.get("removed_aces_with_cover_witness", 0)


def merge_extra(extras):
    return {"programs": sum(e.get("programs", 0) for e in extras),
            "disagreements_checked": sum(e.get("removed", 0) for e in extras)}


def replay(ctx, case: dict) -> None:
    C03.install()
    install()
    RNG["r"] = ctx.rng
    execute(ctx, case)
    ctx.judged(sig=("replay",))
