"""C17 Any sequence of public operations keeps an ACL consistent with a reference model.

Monitor: a step driver with a full event log; after every operation (a) the rendered text is fed back
to the parser (fixed point), (b) the observed ordered rule list - independent reader on the text,
member cubes and block structure from the public views - is compared with the prediction of the
executable reference model (oracle/model.py), (c) offline: the map model-state digest -> rendered
text must be a function over all histories of the run (path independence).
"""

from __future__ import annotations

import itertools

from vcheck.checks import shadow_common as sc
from vcheck.gen import grammar
from vcheck.oracle import bits, model as mdl, packets, reader

PROPERTY = "C17"
LEVEL = "exploration"
BUDGET_S = {"quick": 55, "thorough": 800}
FLOOR = {"quick": 1000, "thorough": 15000}
MUST_REACH = ("steps_judged", "fixpoints_judged", "exact_predictions", "path_collisions_checked", "sequences_run")
RULE = ("8 seed ACLs (flat IOS, IOS grouped by remark prefix, grouped with port_nr != protocol_nr, NX-OS, with address-group members, with non-contiguous masks and "
        "version-only names, numbered with duplicates) x operation sequences over an alphabet of 18 public operations "
        "(platform toggle, port_nr / protocol_nr toggles, resequence 10/10, 1/1, 0, group('= '), ungroup, sort, reverse, "
        "insert, append, pop, copy, Acl(**data()), re-parse, delete_shadow, ungroup_ports): quick = all sequences of length "
        "<= 2 per seed + random sequences of length 3..12; thorough = all of length <= 3, all of length 4 over 8 operations, "
        "random sequences up to length 25 also from generated seeds. judged = operations executed and compared; states = "
        "distinct model states; distinct non-trivial = distinct (seed, operation sequence)"
        " Round 4: hand-made AceGroups without group_by (fixed seed + random seeds); platform argument in every documented spelling."
        " Round 5: operations 'adopt' (foreign entry + same-value switch assignment) and delete_shadow(skip=['nc_wildcard']); seed with nc-only and plain covers."
        " Rounds 6-7: port 0 in a seed list."
        " Round 8: multi-port entries inserted through the list API.")
ASSUMPTIONS = ["multi-port neq entries are not in the seeds (C19 owns them)", "items inserted through the list methods are built "
               "by the driver with the ACL's current platform, version and switches", "sort is predicted exactly only when all "
               "top-level keys are distinct and non-zero, otherwise as some permutation of intact blocks",
               "state after a raising call is not judged: the sequence ends"]

OPS = ["platform", "port_nr", "protocol_nr", "reseq10", "reseq1", "reseq0", "group", "ungroup", "sort", "reverse", "insert",
       "append", "pop", "copy", "data", "reparse", "delete_shadow", "ungroup_ports", "adopt", "delete_shadow_nc"]
OPS8 = ["platform", "port_nr", "reseq10", "group", "sort", "copy", "delete_shadow", "reverse"]

SEEDS = [
    {"name": "flat-ios", "platform": "ios", "kwargs": {},
     "lines": ["remark first", "permit tcp host 10.0.0.1 any eq 80 443", "permit udp any eq 0 5 host 10.0.0.9", "permit tcp 10.0.0.0 0.0.0.255 any eq www",
               "deny udp any any range 100 200", "permit ip any any log"]},
    {"name": "grouped-ios", "platform": "ios", "kwargs": {"group_by": "= "},
     "lines": ["remark = WEB, servers", "permit tcp any host 10.1.1.1 eq 80", "permit tcp any host 10.1.1.1 eq 80 8080",
               "remark = DB", "remark plain note", "permit tcp 10.2.0.0 0.0.255.255 host 10.1.1.2 eq 1521",
               "deny tcp any host 10.1.1.2", "remark = LAST", "deny ip any any"]},
    {"name": "grouped-ios-portnr", "platform": "ios", "kwargs": {"group_by": "= ", "port_nr": True},
     "lines": ["remark = WEB", "permit tcp any host 10.1.1.1 eq www", "permit udp any host 10.1.1.1 eq domain",
               "remark = MGMT", "permit tcp 10.2.0.0 0.0.255.255 any eq 22 telnet", "deny ip any any"]},
    {"name": "nxos", "platform": "nxos", "kwargs": {},
     "lines": ["10 remark nx", "20 permit tcp 10.0.0.0/24 any eq 22", "30 permit tcp 10.0.0.0/25 any eq 22",
               "40 permit udp any 10.9.0.0/16 gt 1023", "50 deny ip any any"]},
    {"name": "members", "platform": "ios", "kwargs": {"group_by": "= "},
     "lines": ["remark = G", "permit ip object-group G1 any", "permit ip host 10.0.0.5 any", "remark = H",
               "permit tcp any object-group G2 eq 443", "permit tcp any host 10.5.5.5 eq 443"],
     "members": {"1": {"src": ["10.0.0.0 0.0.0.255", "host 10.0.1.1"]}, "4": {"dst": ["10.5.5.0 0.0.0.255", "10.5.6.0 0.0.1.255"]}}},
    {"name": "nc-names", "platform": "ios", "kwargs": {"version": "16.09.06"},
     "lines": ["permit tcp 10.0.0.0 0.0.3.3 any eq msrpc", "permit tcp 10.0.0.0 0.0.1.3 any eq 135",
               "permit udp any any eq ripv6 syslog", "permit tcp any any eq cmd", "deny 47 any 10.0.0.0 0.255.0.255"]},
    {"name": "wide-nc", "platform": "ios", "kwargs": {}, "short_only": True,
     "lines": ["remark = WIDE", "permit ip 10.0.0.0 1.255.255.0 any", "remark = REST", "permit tcp host 10.0.0.5 any eq 22",
               "deny ip any any"]},
    {"name": "handmade-groups", "platform": "ios", "kwargs": {}, "handmade": [2, 1, 3],
     "lines": ["10 remark block one", "20 permit tcp any host 10.1.1.1 eq 80", "30 permit udp any any eq 53",
               "40 remark block two", "50 permit tcp 10.2.0.0 0.0.255.255 any eq 22", "60 deny tcp any any eq 22", "70 deny ip any any"]},
    {"name": "nc-and-plain-shadows", "platform": "ios", "kwargs": {},
     "lines": ["permit tcp 10.0.0.0 0.0.3.3 any eq 80", "permit tcp host 10.0.1.1 any eq 80", "permit udp any any eq 53",
               "permit udp host 10.9.9.9 any eq 53", "deny ip any any"]},
    {"name": "numbered-dups", "platform": "ios", "kwargs": {},
     "lines": ["10 permit icmp any any", "20 permit tcp any any eq 25", "20 permit tcp any any eq 25", "30 remark dup", "30 remark dup",
               "40 permit icmp any any", "50 deny ip 10.0.0.0 0.255.255.255 any"]},
]


K4_SEED = {"name": "grouped-long", "platform": "ios", "kwargs": {"group_by": "= "},
           "lines": ["remark = A", "permit tcp any any eq 1", "permit tcp any any eq 2", "permit tcp any any eq 3",
                     "remark = B", "permit tcp any any eq 4", "permit tcp any any eq 5", "permit tcp any any eq 6",
                     "remark = C", "permit tcp any any eq 7", "permit tcp any any eq 8", "remark = D", "deny ip any any"]}
K4_OPS = [["reseq10", "copy", "reverse", "sort"], ["reseq10", "port_nr", "reverse", "sort"], ["reseq10", "reverse", "sort"]]


def _flat_objs(items):
    out = []
    for item in items:
        if type(item).__name__ == "AceGroup":
            out.extend(_flat_objs(item.items))
        else:
            out.append(item)
    return out


def _sem_to_item(sem, obj=None) -> dict:
    if sem["kind"] == "remark":
        return {"kind": "remark", "seq": sem["seq"], "text": sem["text"]}

    def addr(side):
        val = sem[side]
        if val[0] == "group":
            cubes = ()
            if obj is not None:
                cubes = tuple(sc.addr_cubes(getattr(obj, side + "addr"))[0])
            return ("group", val[1], cubes)
        return tuple(val)

    def port(key):
        return None if sem[key] is None else (sem[key][0], tuple(sem[key][1]))

    return {"kind": "ace", "seq": sem["seq"], "logs": tuple(sem["logs"]),
            "m": (sem["action"], sem["proto"], addr("src"), port("sport"), addr("dst"), port("dport"), tuple(sem["flags"]))}


def observe(acl) -> list:
    """Observed top-level structure: reader on the rendered text + members and blocks from public views."""
    parsed = reader.read_acl(acl.line, acl.platform)
    flat = _flat_objs(acl.items)
    if len(parsed["items"]) != len(flat):
        raise reader.ReadError(f"text has {len(parsed['items'])} entries, object has {len(flat)} items")
    by_id = {}
    for sem, obj in zip(parsed["items"], flat):
        by_id[id(obj)] = _sem_to_item(sem, obj if type(obj).__name__ == "Ace" else None)
    top = []
    for el in acl.items:
        if type(el).__name__ == "AceGroup":
            top.append({"block": [by_id[id(o)] for o in _flat_objs(el.items)], "name": ""})
        else:
            top.append(by_id[id(el)])
    return top


def _packet_meaning(item):
    act, proto, src, sport, dst, dport, flags = item["m"]

    def cubes(a):
        return [tuple(a[1:3])] if a[0] == "cube" else [tuple(c) for c in a[2]]

    m = {"action": act, "proto": proto, "src": cubes(src), "dst": cubes(dst), "sport": mdl._port_set(sport),
         "dport": mdl._port_set(dport), "flags": frozenset(flags), "group": src[0] == "group" or dst[0] == "group",
         "nc": any(a[0] == "cube" and not bits.is_contiguous(a[2]) for a in (src, dst)), "outside": False, "line": ""}
    return m


def build(seed: dict):
    from cisco_acl import Acl  # pylint: disable=import-outside-toplevel
    from vcheck.checks.C04 import attach_members  # pylint: disable=import-outside-toplevel

    text = grammar.acl_header(seed["platform"], "C17") + "\n" + "\n".join("  " + ln for ln in seed["lines"])
    acl = Acl(text, platform=seed["platform"], max_ncwb=20, **seed.get("kwargs", {}))
    attach_members(acl, seed.get("members", {}))
    if seed.get("handmade"):
        # hand-made AceGroups in an ACL without group_by (runs of items wrapped through the list methods)
        from cisco_acl import AceGroup  # pylint: disable=import-outside-toplevel

        items = list(acl.items)
        new, pos = [], 0
        for size in seed["handmade"]:
            chunk = items[pos:pos + size]
            pos += size
            if not chunk:
                break
            if size > 1:
                new.append(AceGroup(items=chunk, platform=acl.platform, port_nr=acl.port_nr, protocol_nr=acl.protocol_nr))
            else:
                new.extend(chunk)
        new.extend(items[pos:])
        acl.items[:] = new
    return acl


def _cfg_of(acl) -> dict:
    return {"platform": acl.platform, "port_nr": acl.port_nr, "protocol_nr": acl.protocol_nr, "group_by": acl.group_by}


def _reparse(acl):
    from cisco_acl import Acl  # pylint: disable=import-outside-toplevel

    return Acl(acl.line, platform=acl.platform, version=str(acl.version), port_nr=acl.port_nr, protocol_nr=acl.protocol_nr,
               group_by=acl.group_by, indent=acl.indent, max_ncwb=20)


def run_sequence(ctx, seed: dict, ops: list, digests: dict) -> None:
    from cisco_acl import Ace, Remark  # pylint: disable=import-outside-toplevel

    case = {"seed": seed, "ops": list(ops)}
    acl = build(seed)
    try:
        obs = observe(acl)
    except reader.ReadError as ex:
        raise RuntimeError(f"seed unreadable: {ex}") from ex
    model = mdl.Model(_cfg_of(acl), [])
    model.top = obs  # the seed defines the initial state
    uniq = 0
    history = []
    rng_names = ["www", "ftp", "telnet", "smtp", "domain", "bgp"]
    ctx.count("sequences_run")
    for step, op in enumerate(ops):
        history.append(op)
        pred = "exact"
        live_keys = [el.sequence for el in acl.items]
        before_flat = mdl.flatten(model.top)
        exc = None
        try:
            if op == "platform":
                target = "nxos" if acl.platform == "ios" else "ios"
                pred = model.platform(target)
                spellings = {"nxos": ["nxos", "cnx", "cisco_nxos"], "ios": ["ios", "cisco_ios"]}[target]
                acl.platform = spellings[(step + len(ops)) % len(spellings)]  # every documented spelling of the argument
            elif op in ("port_nr", "protocol_nr"):
                pred = model.switch(op)
                setattr(acl, op, not getattr(acl, op))
            elif op in ("reseq10", "reseq1", "reseq0"):
                start, stp = {"reseq10": (10, 10), "reseq1": (1, 1), "reseq0": (0, 1)}[op]
                if not model.top:
                    continue
                pred = model.resequence(start, stp)
                acl.resequence(start, stp)
            elif op == "group":
                pred = model.group("= ")
                acl.group("= ")
            elif op == "ungroup":
                pred = model.ungroup()
                acl.ungroup()
            elif op == "sort":
                pred = model.sort(live_keys)
                acl.sort()
            elif op == "reverse":
                pred = model.reverse()
                acl.reverse()
            elif op == "insert":
                uniq += 1
                text = f"permit tcp host 10.250.0.{uniq} any eq {2000 + uniq}"
                if acl.platform == "ios" and uniq % 2:
                    text += f" {3000 + uniq}"  # a multi-port entry put at the top level through the list API
                pred = model.insert(0, _sem_to_item(reader.read_ace(text)))
                acl.insert(0, Ace(text, platform=acl.platform, version=str(acl.version), port_nr=acl.port_nr,
                                  protocol_nr=acl.protocol_nr))
            elif op == "adopt":
                # an entry built elsewhere with default switches is inserted, then the ACL's switches are assigned their
                # current values again: that re-applies them to every entry (the ACL renders one consistent spelling)
                uniq += 1
                text = f"permit tcp host 10.251.0.{uniq} any eq {rng_names[uniq % len(rng_names)]}"
                pred = model.insert(0, _sem_to_item(reader.read_ace(text)))
                model.switch("port_nr")
                model.switch("port_nr")
                acl.insert(0, Ace(text, platform=acl.platform, version=str(acl.version)))
                acl.port_nr = acl.port_nr
                acl.protocol_nr = acl.protocol_nr
            elif op == "append":
                uniq += 1
                text = f"remark appended {uniq}"
                pred = model.append(_sem_to_item(reader.read_remark(text)))
                acl.append(Remark(text, platform=acl.platform, version=str(acl.version)))
            elif op == "pop":
                pred = model.pop()
                acl.pop()
            elif op == "copy":
                pred = model.rebuild()
                acl = acl.copy()
            elif op == "data":
                pred = model.rebuild()
                acl = type(acl)(**acl.data())
            elif op == "reparse":
                pred = model.rebuild(drop_members=True)
                acl = _reparse(acl)
            elif op == "ungroup_ports":
                pred = model.ungroup_ports()
                acl.ungroup_ports()
            elif op in ("delete_shadow", "delete_shadow_nc"):
                skip = ["nc_wildcard"] if op == "delete_shadow_nc" else None
                metas = [(_packet_meaning(i) if i["kind"] == "ace" else None) for i in before_flat]
                exact = all(m is None or sc.exact_domain(m) for m in metas)
                corner = any(mi is not None and mj is not None and sc.full_cover_corner(mj, mi)
                             for a, mi in enumerate(metas) for mj in metas[a + 1:])
                acl.delete_shadow(skip) if skip else acl.delete_shadow()
                if exact and not corner:
                    removed = {j for j, mj in enumerate(metas) if mj is not None and
                               any(mi is not None and sc.truth(mj, mi) and not sc.skipped(mj, mi, skip) for mi in metas[:j])}
                    pred = model.delete(removed)
                else:
                    pred = "sublist"
        except Exception as ex:  # pylint: disable=broad-except
            exc = ex
        ctx.count("steps_judged")
        if exc is not None:
            if pred == "raise:IndexError" and isinstance(exc, IndexError):
                ctx.count("predicted_raises")
            else:
                ctx.violation(case, f"operation {op!r} (step {step}) raised an exception the model does not predict",
                              {"history": history, "error": f"{type(exc).__name__}: {exc}"})
            return
        if pred == "raise:IndexError":
            ctx.violation(case, "pop on an empty ACL did not raise", {"history": history})
            return
        # (a) fixed point
        try:
            again = _reparse(acl).line
        except Exception as ex:  # pylint: disable=broad-except
            ctx.violation(case, f"after {op!r} (step {step}) the rendered text is rejected by the parser",
                          {"history": history, "text": acl.line, "error": f"{type(ex).__name__}: {ex}"})
            return
        ctx.count("fixpoints_judged")
        if again != acl.line:
            ctx.violation(case, f"after {op!r} (step {step}) the rendered text does not parse back to itself",
                          {"history": history, "text": acl.line, "reparsed": again})
            return
        # (b) observed vs predicted
        try:
            obs = observe(acl)
        except reader.ReadError as ex:
            ctx.violation(case, f"after {op!r} (step {step}) the rendered text is not readable Cisco syntax",
                          {"history": history, "text": acl.line, "error": str(ex)})
            return
        cfg = _cfg_of(acl)
        okey = mdl.structure_key(obs)
        if pred == "sublist":
            # weak prediction: a sublist of the ACEs, every removed ACE covered by an earlier same-action ACE
            flat_before = [mdl.item_key(i) for i in before_flat]
            flat_after = [k for el in okey for k in (el if isinstance(el, list) else [el])]
            removed = set()
            pos = 0
            for idx, key in enumerate(flat_before):
                if pos < len(flat_after) and flat_after[pos] == key:
                    pos += 1
                else:
                    removed.add(idx)
            metas = [(_packet_meaning(i) if i["kind"] == "ace" else None) for i in before_flat]
            bad = pos != len(flat_after) or any(metas[j] is None or not any(
                metas[i] is not None and sc.truth(metas[j], metas[i]) for i in range(j)) for j in removed)
            if bad:
                ctx.violation(case, "delete_shadow result is not 'the list minus covered ACEs'", {"history": history, "text": acl.line})
                return
            model.delete(removed)
            ctx.count("weak_predictions")
        elif pred == "perm":
            want = sorted(repr(k) for k in mdl.structure_key(model.top))
            if sorted(repr(k) for k in okey) != want:
                ctx.violation(case, "sort did not keep the blocks intact", {"history": history, "text": acl.line})
                return
            model.top = obs
            ctx.count("weak_predictions")
        else:
            if cfg != model.cfg:
                ctx.violation(case, f"after {op!r} (step {step}) platform/switches/group_by differ from the model",
                              {"history": history, "observed": cfg, "model": model.cfg})
                return
            if okey != mdl.structure_key(model.top):
                known = None
                if pred == "exact-stale-block-sequence":
                    known = "group-by-rebuild-block-sequence"
                ctx.violation(case, f"after {op!r} (step {step}) the ordered rule list differs from the reference model",
                              {"history": history, "text": acl.line,
                               "observed": _brief(okey), "model": _brief(mdl.structure_key(model.top))}, known=known)
                if known:
                    model.top = obs  # resynchronise and stop: the rest of the history is path dependent by the known finding
                return
            ctx.count("exact_predictions")
            model.top = obs if False else model.top
        # (c) path independence: same model state -> same text
        dig = model.digest() + repr((str(acl.version), acl.indent, acl.name))
        prev = digests.get(dig)
        if prev is None:
            digests[dig] = (acl.line, list(history), seed["name"])
        else:
            ctx.count("path_collisions_checked")
            if prev[0] != acl.line:
                ctx.violation(case, "two histories reach the same model state with different rendered text",
                              {"history": history, "text": acl.line, "other_history": prev[1], "other_text": prev[0]})
                return


def _brief(skey):
    out = []
    for el in skey:
        if isinstance(el, list):
            out.append([str(k[:3]) for k in el])
        else:
            out.append(str(el[:3]))
    return out


def gen_seed(rng) -> dict:
    platform = rng.choice(["ios", "nxos"])
    heading = rng.choice(["", "= "])
    lines = []
    seq = 0
    numbered = rng.random() < 0.4
    small = sc.SMALL if rng.random() < 0.6 else None
    descs = []
    for idx in range(rng.randint(2, 9)):
        if numbered:
            seq += 10
        if rng.random() < 0.25:
            lines.append(grammar.gen_remark(rng, seq=seq, heading=heading if heading and rng.random() < 0.6 else None,
                                            uniq=f"u{idx}")["text"])
            continue
        if descs and rng.random() < 0.5:
            desc = sc.derive_bottom(rng, rng.choice(descs), platform, small)
        else:
            desc = sc.gen_related_pair(rng, platform, groups=False, small=small)["top"]
        for side in ("src", "dst"):
            if "/0" in desc[side] and platform == "ios":
                desc[side] = "any"
        for side in ("sport", "dport"):  # multi-port neq is owned by C19
            if desc.get(side) and desc[side].startswith("neq ") and len(desc[side].split()) > 2:
                desc[side] = " ".join(desc[side].split()[:2])
        descs.append(desc)
        lines.append(sc.compose(desc, platform, seq=seq))
    seed = {"name": f"gen{rng.randrange(1 << 30)}", "platform": platform, "kwargs": {"group_by": heading} if heading else {},
            "lines": lines}
    if not heading and rng.random() < 0.3:
        seed["handmade"] = [rng.choice([1, 2, 2, 3]) for _ in range(3)]
    return seed


def run(ctx) -> None:
    rng = ctx.rng
    thorough = ctx.tier == "thorough"
    digests = {}
    plan = []
    for seed in SEEDS:
        max_len = 3 if thorough and not seed.get("short_only") else 2
        for length in range(1, max_len + 1):
            for ops in itertools.product(OPS, repeat=length):
                plan.append((seed, list(ops)))
        if thorough and not seed.get("short_only"):
            for ops in itertools.product(OPS8, repeat=4):
                plan.append((seed, list(ops)))
    plan = [(K4_SEED, ops) for ops in K4_OPS] + plan
    mine = [p for n, p in enumerate(plan) if n % ctx.nshards == ctx.shard]
    done = 0
    for seed, ops in mine:
        if ctx.expired():
            ctx.count("exhaustive_part_truncated")
            break
        s0 = ctx.counters.get("steps_judged", 0)
        run_sequence(ctx, seed, ops, digests)
        done += 1
        ctx.judged(sig=(seed["name"], tuple(ops)), nontrivial=True, n=max(1, ctx.counters.get("steps_judged", 0) - s0),
                   sample={"seed": seed["name"], "ops": ops} if done % 400 == 1 else None)
    ctx.extra["exhaustive_done"] = done == len(mine)
    n_rand = {"quick": 250, "thorough": 2500}[ctx.tier]
    for _ in range(n_rand):
        if ctx.expired():
            break
        seed = rng.choice([sd for sd in SEEDS if not sd.get("short_only")]) if rng.random() < 0.5 else gen_seed(rng)
        ops = [rng.choice(OPS) for _ in range(rng.randint(3, 25 if thorough else 12))]
        s0 = ctx.counters.get("steps_judged", 0)
        run_sequence(ctx, seed, ops, digests)
        done += 1
        ctx.judged(sig=(seed["name"], tuple(ops)), nontrivial=True, n=max(1, ctx.counters.get("steps_judged", 0) - s0))
    ctx.extra["states"] = len(digests)
    ctx.extra["transitions"] = ctx.counters.get("steps_judged", 0)
    ctx.count("cases", done)


def merge_extra(extras):
    return {"states": sum(e.get("states", 0) for e in extras), "transitions": sum(e.get("transitions", 0) for e in extras),
            "exhaustive_part_complete": all(e.get("exhaustive_done") for e in extras),
            "explanation": "states = distinct model-state digests seen per shard (summed), transitions = operations executed and judged"}


def replay(ctx, case: dict) -> None:
    run_sequence(ctx, case["seed"], case["ops"], {})
    ctx.judged(sig=("replay",))
