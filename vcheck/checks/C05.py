"""C05 Wildcard -> prefixes is exact; limits reject, never truncate; no stale results.

Monitors: taps on the returns of Wildcard.ipnets and Address.ipnets/prefixes/subnets/wildcards and
on the Wildcard.line setter. The oracle reads only the object's *current* public prefix/wildmask
(pure getters) and never calls anything memoised on the live object.
"""

from __future__ import annotations

import weakref

from vcheck.monitor import taps
from vcheck.oracle import bits

PROPERTY = "C05"
LEVEL = "exploration"
BUDGET_S = {"quick": 45, "thorough": 600}
FLOOR = {"quick": 3000, "thorough": 30000}
MUST_REACH = ("ipnets_returns_judged", "queries_after_reassignment", "limit_rejections_judged", "factory_called_again")
RULE = ("cases: single (base, mask) objects incl. all contiguous masks, complete enumeration of the masks over a "
        "10-bit support, random supports with k<=12 (quick) / k<=16 (+k=17..20) non-contiguous bits, dirty bases; "
        "limits L in 0..30 with k in {L-1,L,L+1} and invalid L; histories of 2..8 line reassignments interleaved "
        "with queries on one Wildcard / Address object (every written line has a unique base); fprefix/fsubnet. "
        "judged = monitor evaluations (every return of ipnets()/derived views + every accept/reject decision); "
        "distinct non-trivial = distinct (kind, k, trailing-run length, history shape) with k>0 or a reassignment"
        " Round 4: factories called with explicit limits 0..30 (incl. /0 and the zero netmask), limit enforced at k = L-1, L, L+1."
        " Round 5: limits configured on Ace/Acl (incl. 0, k-1); histories starting from a group address with members."
        " Rounds 6-7: subnet-mask-shaped wildcard masks; group limits applied to members given as strings.")
ASSUMPTIONS = ["object state after a rejected line assignment is not judged (no property states atomicity)",
               "bool limits are ints in Python and are not judged"]

FOUND = []
STATE = weakref.WeakKeyDictionary()  # Wildcard -> {"writes": n, "dirty": bool}
STATS = {"ipnets": 0, "after": 0}


def _net_tuple(net):
    return (int(net.network_address), net.prefixlen)


def _oracle_for(wild) -> tuple:
    v = bits.ip2int(wild.prefix)
    w = bits.ip2int(wild.wildmask)
    plen, k, nets = bits.expansion(bits.cube(v, w))
    return v, w, plen, k, nets


def _judge_ipnets(wild, result) -> None:
    st = STATE.get(wild)
    if st is not None and st["dirty"]:
        return
    v, w, plen, k, nets = _oracle_for(wild)
    STATS["ipnets"] += 1
    if st is not None and st["writes"] >= 2:
        STATS["after"] += 1
    got = [_net_tuple(n) for n in result]
    problems = []
    if len(got) != 1 << k:
        problems.append(f"{len(got)} networks, expected 2^{k}")
    if len(set(got)) != len(got):
        problems.append("duplicate networks")
    if {p for _, p in got} - {plen}:
        problems.append(f"prefix lengths {sorted({p for _, p in got})}, expected {plen}")
    if {n for n, _ in got} != nets:
        missing = sorted(nets - {n for n, _ in got})[:3]
        extra = sorted({n for n, _ in got} - nets)[:3]
        problems.append(f"network set differs: missing {[bits.int2ip(x) for x in missing]} extra {[bits.int2ip(x) for x in extra]}")
    if problems:
        FOUND.append({"what": "Wildcard.ipnets() does not describe the current line",
                      "detail": {"current": f"{wild.prefix} {wild.wildmask}", "problems": problems,
                                 "returned_first": [f"{bits.int2ip(n)}/{p}" for n, p in got[:4]]}})


def _post_ipnets(self, args, kwargs, result, exc, token):
    if exc is None:
        _judge_ipnets(self, result)


def _pre_line(self, value):
    return None


def _on_line_set(self, value, exc, token):
    st = STATE.get(self)
    if st is None:
        st = {"writes": 0, "dirty": False}
        STATE[self] = st
    if exc is None:
        st["writes"] += 1
        st["dirty"] = False
    else:
        st["dirty"] = True


def install():
    import cisco_acl  # pylint: disable=import-outside-toplevel
    from cisco_acl.wildcard import Wildcard  # pylint: disable=import-outside-toplevel

    taps.tap_method(Wildcard, "ipnets", _post_ipnets)
    taps.tap_property(Wildcard, "line", on_set=_on_line_set)
    return cisco_acl


# ------------------------------------------------------------------ driver


def _mask_with(rng, k: int, trailing: int) -> int:
    """A mask with `trailing` low ones, a zero above them (if any high bits) and k bits above."""
    w = (1 << trailing) - 1
    if k:
        positions = rng.sample(range(trailing + 1, 32), min(k, 31 - trailing))
        for pos in positions:
            w |= 1 << pos
    return w


def _line(v: int, w: int) -> str:
    return f"{bits.int2ip(v)} {bits.int2ip(w)}"


def _check_views(case, ctx, obj_wild, v, w, via_addr=None, expand_max=16):
    """Driver-side post-conditions on the non-memoised views (line/prefix/wildmask/ipnet)."""
    import ipaddress  # pylint: disable=import-outside-toplevel

    cv, cw = bits.cube(v, w)
    want_line = _line(cv, cw)
    problems = []
    if obj_wild is not None:
        if obj_wild.line != want_line:
            problems.append(f"line {obj_wild.line!r} expected {want_line!r}")
        if obj_wild.prefix != bits.int2ip(cv) or obj_wild.wildmask != bits.int2ip(cw):
            problems.append(f"prefix/wildmask {obj_wild.prefix} {obj_wild.wildmask}")
        if bits.is_contiguous(cw):
            want = ipaddress.IPv4Network((cv, 32 - bits.popcount(cw)))
            if obj_wild.ipnet != want:
                problems.append(f"ipnet {obj_wild.ipnet} expected {want}")
        elif obj_wild.ipnet is not None:
            problems.append(f"ipnet {obj_wild.ipnet} for a non-contiguous mask, expected None")
    elif via_addr.wildcard != want_line:
        problems.append(f"Address.wildcard {via_addr.wildcard!r} expected {want_line!r}")
    ctx.count("view_checks")
    if via_addr is not None and bits.ncwb_count(cw) > expand_max:
        if via_addr.wildcards() != [want_line]:
            problems.append(f"Address.wildcards() {via_addr.wildcards()} expected {[want_line]}")
    elif via_addr is not None:
        plen, k, nets = bits.expansion((cv, cw))
        want_nets = sorted(nets)
        got = via_addr.ipnets()
        if sorted(_net_tuple(n) for n in got) != [(n, plen) for n in want_nets]:
            problems.append("Address.ipnets() differs from the oracle")
        if sorted(via_addr.prefixes()) != sorted(f"{bits.int2ip(n)}/{plen}" for n in want_nets):
            problems.append("Address.prefixes() differs from the oracle")
        netmask = bits.int2ip(bits.ALL ^ ((1 << (32 - plen)) - 1))
        if sorted(via_addr.subnets()) != sorted(f"{bits.int2ip(n)} {netmask}" for n in want_nets):
            problems.append("Address.subnets() differs from the oracle")
        if via_addr.wildcards() != [want_line]:
            problems.append(f"Address.wildcards() {via_addr.wildcards()} expected {[want_line]}")
        if bits.is_contiguous(cw):
            if via_addr.ipnet != ipaddress.IPv4Network((cv, plen)):
                problems.append(f"Address.ipnet {via_addr.ipnet}")
        elif via_addr.ipnet is not None:
            problems.append("Address.ipnet not None for a non-contiguous mask")
        ctx.count("address_view_checks")
    for prob in problems:
        ctx.violation(case, "derived value does not describe the current line", prob)


def _drain(case, ctx):
    for item in FOUND:
        ctx.violation(case, item["what"], item["detail"])
    del FOUND[:]
    if taps.TAP_ERRORS:
        raise RuntimeError("monitor error: " + taps.TAP_ERRORS[0])


def execute(ctx, case: dict) -> None:
    """Run one case under the monitors."""
    from ipaddress import NetmaskValueError  # pylint: disable=import-outside-toplevel
    from cisco_acl import Wildcard, Address  # pylint: disable=import-outside-toplevel

    kind = case["k"]
    before = STATS["ipnets"]
    if kind == "single":
        v, w, lim = case["v"], case["w"], case["max_ncwb"]
        k = bits.ncwb_count(w)
        kwargs = {} if lim is None else {"max_ncwb": lim}
        eff = 16 if lim is None else lim
        line = _line(v, w)
        obj = None
        addr = None
        try:
            if case["via"] == "Address":
                addr = Address(line, platform=case.get("platform", "ios"), **kwargs)
            elif case["via"] == "Ace":
                # the limit configured on the entry: its addresses enforce it
                from cisco_acl import Ace  # pylint: disable=import-outside-toplevel

                addr = Ace(f"permit ip {line} any", **kwargs).srcaddr
                ctx.count("limits_configured_on_entries")
            elif case["via"] == "Acl":
                from cisco_acl import Acl  # pylint: disable=import-outside-toplevel

                addr = Acl(f"ip access-list extended L\n permit ip any {line}", **kwargs).items[0].dstaddr
                ctx.count("limits_configured_on_entries")
            else:
                obj = Wildcard(line, **kwargs)
        except NetmaskValueError as ex:
            ctx.count("limit_rejections_judged")
            if k <= eff:
                ctx.violation(case, "mask within the limit was rejected", f"k={k} limit={eff}: {ex}")
        except Exception as ex:  # pylint: disable=broad-except
            ctx.violation(case, "unexpected exception for a valid wildcard line", f"{type(ex).__name__}: {ex}")
        else:
            ctx.count("limit_accepts_judged")
            if k > eff:
                ctx.violation(case, "mask above the limit was accepted (approximated)", f"k={k} limit={eff}")
            else:
                _check_views(case, ctx, obj, v, w, via_addr=addr, expand_max=case.get("expand_max", 16))
                if k <= case.get("expand_max", 16):
                    (obj if obj is not None else addr).ipnets()
                    (obj if obj is not None else addr).ipnets()
        ctx.judged(sig=("single", case["via"], k, bits.trailing_ones(w), eff, v & w != 0),
                   nontrivial=k > 0 or (v & w) != 0, sample=case if k > 1 else None,
                   n=1 + STATS["ipnets"] - before)

    elif kind == "history":
        lim = case["max_ncwb"]
        first = case["steps"][0]
        obj = None
        addr = None
        cur = None
        shape = []
        for step in case["steps"]:
            op = step[0]
            if op == "set":
                v, w = step[1], step[2]
                k = bits.ncwb_count(w)
                shape.append("S" if k <= lim else "R")
                try:
                    if obj is None and addr is None:
                        if case["via"] == "Address" and case.get("start_group"):
                            # the address starts its life as a group with members and is then given a wildcard line
                            addr = Address("object-group G", items=["host 10.251.0.1", "10.252.0.0 0.0.255.255"], max_ncwb=lim)
                            addr.line = _line(v, w)
                            ctx.count("group_addresses_reassigned_to_wildcards")
                        elif case["via"] == "Address":
                            addr = Address(_line(v, w), max_ncwb=lim)
                        else:
                            obj = Wildcard(_line(v, w), max_ncwb=lim)
                    elif case["via"] == "Address":
                        addr.line = _line(v, w)
                    else:
                        obj.line = _line(v, w)
                except NetmaskValueError:
                    ctx.count("limit_rejections_judged")
                    if k <= lim:
                        ctx.violation(case, "mask within the limit was rejected on reassignment", f"k={k} limit={lim}")
                    cur = None  # state after a rejected call is not judged until the next successful set
                    if obj is None and addr is None:
                        break
                else:
                    if k > lim:
                        ctx.violation(case, "mask above the limit was accepted on reassignment", f"k={k} limit={lim}")
                        cur = None
                    else:
                        cur = (v, w)
            elif op == "limit":
                # the limit is changed on the live object: later assignments are judged against the new limit
                tgt = addr if addr is not None else obj
                if tgt is not None:
                    tgt.max_ncwb = step[1]
                    lim = step[1]
                    shape.append("L")
            elif cur is not None:
                shape.append("q")
                target = obj
                if op == "ipnets":
                    n0 = len(FOUND)
                    (addr if addr is not None else obj).ipnets()
                    if len(FOUND) > n0:  # which earlier write does the stale answer describe?
                        got = {_net_tuple(n)[0] for n in (addr if addr is not None else obj).ipnets()}
                        for back, old in enumerate(reversed([s for s in case["steps"] if s[0] == "set"])):
                            if got == bits.expansion(bits.cube(old[1], old[2]))[2]:
                                FOUND[-1]["detail"]["describes_write"] = f"{back} writes back: {_line(old[1], old[2])}"
                                ctx.count(f"stale_by_{back}")
                                break
                elif op == "views":
                    _check_views(case, ctx, target, cur[0], cur[1], via_addr=addr)
        n_sets = sum(1 for s in case["steps"] if s[0] == "set")
        ctx.judged(sig=("history", case["via"], "".join(shape), bits.ncwb_count(first[2])),
                   nontrivial=n_sets >= 2, sample=case if n_sets >= 3 else None,
                   n=max(1, STATS["ipnets"] - before))

    elif kind == "grouplimit":
        # the limit configured on a group address holds for its members, however they are handed over
        lim, k = case["L"], case["kk"]
        member = _line(0x0A000000, _mask_with_bits(k))
        try:
            if case["how"] == "ctor-strings":
                Address("object-group G", items=["host 10.9.9.9", member], max_ncwb=lim)
            elif case["how"] == "ctor-single-string":
                Address("object-group G", items=member, max_ncwb=lim)
            else:
                addr = Address("object-group G", items=["host 10.9.9.9"], max_ncwb=lim)
                addr.items = ["host 10.9.9.8", member]
        except NetmaskValueError:
            ctx.count("limit_rejections_judged")
            if k <= lim:
                ctx.violation(case, "a group member within the group's limit was rejected", f"k={k} limit={lim}")
        except Exception as ex:  # pylint: disable=broad-except
            ctx.violation(case, "a group member raised an undocumented error", f"{type(ex).__name__}: {ex}")
        else:
            ctx.count("limit_accepts_judged")
            if k > lim:
                ctx.violation(case, "a group member above the group's limit was accepted", f"k={k} limit={lim} ({case['how']})")
        ctx.count("group_member_limits_judged")
        ctx.judged(sig=("grouplimit", case["how"], lim, k - lim), nontrivial=True)

    elif kind == "badlimit":
        lim = case["L"]
        try:
            Wildcard("10.0.0.0 0.0.0.255", max_ncwb=lim)
        except (TypeError, ValueError):
            ctx.count("bad_limit_rejected")
        except Exception as ex:  # pylint: disable=broad-except
            ctx.violation(case, "invalid limit raised an undocumented error", f"{type(ex).__name__}: {ex}")
        else:
            ctx.violation(case, "invalid limit was accepted", repr(lim))
        ctx.judged(sig=("badlimit", repr(lim)), nontrivial=True)

    elif kind == "flimit":
        # a factory called with an explicit limit: the object must enforce exactly that limit on later assignments
        v, plen, lim = case["v"], case["len"], case["L"]
        cv, cw = bits.prefix_cube(v, plen)
        if case["factory"] == "fprefix":
            text = f"{bits.int2ip(cv)}/{plen}"
        else:
            text = f"{bits.int2ip(cv)} {bits.int2ip(bits.ALL ^ cw)}"
        try:
            obj = getattr(Wildcard, case["factory"])(text, max_ncwb=lim)
        except Exception as ex:  # pylint: disable=broad-except
            ctx.violation(case, "a factory raised for an exact network and a valid limit", f"{type(ex).__name__}: {ex}")
        else:
            _check_views(case, ctx, obj, cv, cw)
            if obj.max_ncwb != lim:
                ctx.violation(case, "the factory did not hand the requested limit to the object", {"asked": lim, "got": obj.max_ncwb})
            for k in case["ks"]:
                w = _mask_with_bits(k)
                try:
                    obj.line = _line(0x0A000000, w)
                except NetmaskValueError:
                    ctx.count("limit_rejections_judged")
                    if k <= lim:
                        ctx.violation(case, "mask within the factory's limit was rejected", f"k={k} limit={lim}")
                else:
                    ctx.count("limit_accepts_judged")
                    if k > lim:
                        ctx.violation(case, "mask above the factory's limit was accepted (approximated)", f"k={k} limit={lim}")
                    elif k <= 10:
                        _check_views(case, ctx, obj, 0x0A000000, w)
                        obj.ipnets()
            ctx.count("factory_limits_judged")
        ctx.judged(sig=("flimit", case["factory"], plen in (0, 32), lim), nontrivial=True)

    elif kind == "fprefix":
        v, plen = case["v"], case["len"]
        text = f"{bits.int2ip(v)}/{plen}"
        cv, cw = bits.prefix_cube(v, plen)
        try:
            obj = Wildcard.fprefix(text)
        except Exception as ex:  # pylint: disable=broad-except
            ctx.violation(case, "fprefix raised for a valid prefix", f"{type(ex).__name__}: {ex}")
        else:
            _check_views(case, ctx, obj, cv, cw)
            obj.ipnets()
        ctx.judged(sig=("fprefix", plen, v & ~cw & bits.ALL != v), nontrivial=True)

    elif kind == "fsubnet":
        v, plen = case["v"], case["len"]
        mask = bits.ALL ^ ((1 << (32 - plen)) - 1)
        text = f"{bits.int2ip(v)} {bits.int2ip(mask)}"
        cv, cw = bits.prefix_cube(v, plen)
        clean = v == cv
        try:
            obj = Wildcard.fsubnet(text)
        except ValueError as ex:
            if clean:
                ctx.violation(case, "fsubnet rejected an exact network", str(ex))
            ctx.count("fsubnet_rejected")
        except Exception as ex:  # pylint: disable=broad-except
            ctx.violation(case, "fsubnet raised an undocumented error", f"{type(ex).__name__}: {ex}")
        else:
            _check_views(case, ctx, obj, cv, cw)
            obj.ipnets()
            # the factory hands out independent objects: reassign the first result, ask the factory again
            try:
                obj.line = "10.77.0.0 0.0.5.5"
                obj.max_ncwb = 3
                again = Wildcard.fsubnet(text)
                _check_views(case, ctx, again, cv, cw)
                again.ipnets()
                if again.max_ncwb != 16:
                    ctx.violation(case, "a Wildcard from the factory inherits the limit of an earlier result", again.max_ncwb)
                ctx.count("factory_called_again")
            except ValueError:
                pass
        ctx.judged(sig=("fsubnet", plen, clean), nontrivial=True)
    _drain(case, ctx)


def _mask_with_bits(k: int) -> int:
    """A wildcard mask with exactly k non-contiguous bits (every second bit from bit 2 upwards; bit 0 stays 0)."""
    w = 0
    for n in range(k):
        w |= 1 << (2 + 2 * n) if n < 15 else 1 << (1 + 2 * (n - 15))
    return w


def _rand_base(rng) -> int:
    octs = [rng.choice([0, 1, 10, 127, 128, 255, rng.randrange(256)]) for _ in range(4)]
    return (octs[0] << 24) | (octs[1] << 16) | (octs[2] << 8) | octs[3]


def gen_cases(ctx):
    """Yield cases for this shard (deterministic part is split by case index)."""
    rng = ctx.rng
    thorough = ctx.tier == "thorough"
    idx = 0

    def mine():
        nonlocal idx
        idx += 1
        return idx % ctx.nshards == ctx.shard

    # all contiguous masks, clean and dirty base, both entry points
    for t in range(33):
        w = (1 << t) - 1
        for via in ("Wildcard", "Address"):
            for dirty in (False, True):
                if mine():
                    v = _rand_base(rng) if dirty else _rand_base(rng) & ~w & bits.ALL
                    yield {"k": "single", "v": v, "w": w, "max_ncwb": None, "via": via}
    # complete enumeration of masks over a fixed 10-bit support
    support = [1, 4, 7, 9, 12, 16, 19, 23, 26, 30]
    for j in range(1024):
        if mine():
            w = 0
            for n, pos in enumerate(support):
                if (j >> n) & 1:
                    w |= 1 << pos
            yield {"k": "single", "v": _rand_base(rng), "w": w, "max_ncwb": None,
                   "via": "Wildcard" if j % 3 else "Address"}
    # limits: every L in 0..30 with k in {L-1, L, L+1}; expansion only when small
    for lim in range(31):
        for k in (lim - 1, lim, lim + 1):
            if 0 <= k <= 31:
                for rep in range(2):
                    if mine():
                        trailing = rng.randint(0, max(0, 30 - k)) if k < 31 else 0
                        w = _mask_with(rng, k, trailing)
                        yield {"k": "single", "v": _rand_base(rng), "w": w, "max_ncwb": lim,
                               "via": "Wildcard" if rep else "Address", "expand_max": 12}
    for bad in (-1, 31, 1000, "16", 1.5, [3]):
        if mine():
            yield {"k": "badlimit", "L": bad}
    # default limit (None -> 16) around 16
    for k in (15, 16, 17, 18):
        if mine():
            yield {"k": "single", "v": _rand_base(rng), "w": _mask_with(rng, k, rng.randint(0, 8)),
                   "max_ncwb": None, "via": "Wildcard", "expand_max": 16 if thorough else 12}
    if mine():  # one expansion above the default limit in every run (2^17 networks)
        yield {"k": "single", "v": _rand_base(rng), "w": _mask_with(rng, 17, rng.randint(0, 4)), "max_ncwb": 17,
               "via": rng.choice(["Wildcard", "Address"]), "expand_max": 17}
    if thorough:
        for k in (17, 18, 19, 20):
            if mine():
                yield {"k": "single", "v": _rand_base(rng), "w": _mask_with(rng, k, rng.randint(0, 6)),
                       "max_ncwb": 24, "via": "Wildcard", "expand_max": 20}
    # wildcard masks that look like subnet masks (ones at the top): non-contiguous as wildcards, every octet-aligned one included
    for mask, lim, emax in (("255.0.0.0", None, 12), ("255.255.0.0", None, 16), ("255.255.255.0", 24, 12), ("255.255.255.252", 30, 12),
                            ("255.128.0.0", None, 12), ("128.0.0.0", None, 12), ("255.255.255.254", 31 if False else 30, 12),
                            ("255.255.0.255", 24, 12), ("0.255.255.0", None, 16)):
        for base in ("10.1.0.0", "10.1.2.3", "0.0.0.0"):
            if mine():
                w = bits.ip2int(mask)
                yield {"k": "single", "v": bits.ip2int(base), "w": w, "max_ncwb": lim, "via": rng.choice(["Wildcard", "Address"]),
                       "expand_max": emax}
    for lim in (0, 2, 5, 15, 16, 18, 30):
        for how in ("ctor-strings", "ctor-single-string", "items-setter"):
            for dk in (0, 1):
                if mine() and lim + dk <= 30:
                    yield {"k": "grouplimit", "L": lim, "kk": lim + dk, "how": how}
    # fprefix / fsubnet
    for plen in range(33):
        for dirty in (False, True):
            if mine():
                v = _rand_base(rng)
                if not dirty:
                    v = bits.prefix_cube(v, plen)[0]
                yield {"k": "fprefix", "v": v, "len": plen}
                yield {"k": "fsubnet", "v": v, "len": plen}
                lim = rng.choice([0, 1, 2, 5, 15, 17, 20, 30])
                yield {"k": "flimit", "factory": rng.choice(["fprefix", "fsubnet"]) if dirty else "fsubnet", "v": v, "len": plen,
                       "L": lim, "ks": sorted({max(0, lim - 1), lim, min(30, lim + 1), 1})}
    # random part
    kmax = 16 if thorough else 12
    writer = ctx.shard * 4000
    while True:
        roll = rng.random()
        if roll < 0.45:
            k = min(kmax, int(rng.expovariate(0.35)))
            trailing = rng.randint(0, 31 - k) if rng.random() < 0.7 else 0
            yield {"k": "single", "v": _rand_base(rng), "w": _mask_with(rng, k, trailing),
                   "max_ncwb": rng.choice([None, None, k, k + 1, max(0, k - 1), 0, 16, 20, 30]),
                   "via": rng.choice(["Wildcard", "Address", "Wildcard", "Address", "Ace", "Acl"])}
        else:
            lim = rng.choice([0, 2, 4, 6, 8, 16])
            steps = []
            n_steps = rng.randint(2, 8)
            for _ in range(n_steps):
                writer += 1
                # unique base per write: writer id in the two high octets
                base = ((writer & 0xFFFF) << 16) | rng.getrandbits(16)
                k = rng.choice([0, 0, 1, 2, 3, lim, lim, lim + 1]) if rng.random() < 0.9 else rng.randint(0, 8)
                k = min(k, 9)
                trailing = rng.randint(0, 6)
                w = (1 << trailing) - 1  # masks stay inside the low 16 bits: the writer id stays visible
                for pos in rng.sample(range(trailing + 1, 16), min(k, 15 - trailing)):
                    w |= 1 << pos
                steps.append(["set", base, w])
                for _ in range(rng.randint(0, 2)):
                    steps.append([rng.choice(["ipnets", "ipnets", "views"])])
                if rng.random() < 0.15:
                    steps.append(["limit", rng.choice([0, 1, 2, 4, 8, 16])])
            steps.append(["ipnets"])
            hist = {"k": "history", "max_ncwb": lim, "steps": steps, "via": rng.choice(["Wildcard", "Wildcard", "Address"])}
            if hist["via"] == "Address" and rng.random() < 0.3:
                hist["start_group"] = True
            yield hist


def run(ctx) -> None:
    install()
    n_max = {"quick": 9000, "thorough": 400000}[ctx.tier]
    done = 0
    for case in gen_cases(ctx):
        if ctx.expired() or done >= n_max:
            break
        execute(ctx, case)
        done += 1
    ctx.count("ipnets_returns_judged", STATS["ipnets"])
    ctx.count("queries_after_reassignment", STATS["after"])
    ctx.count("cases", done)
    for key, val in taps.CALLS.items():
        ctx.count("reach:" + key, val)


def replay(ctx, case: dict) -> None:
    install()
    execute(ctx, case)
