"""C19 Splitting multi-port entries into single-port entries keeps the meaning.

Monitors: pre/post taps on Ace.ungroup_ports, AceGroup.ungroup_ports and Acl.ungroup_ports (the
calls made by Acl.platform = 'nxos' are judged too). Oracle: exact 2-D union of (sport x dport)
rectangles by atoms of the source axis.
"""

from __future__ import annotations

from vcheck.checks import shadow_common as sc
from vcheck.gen import grammar
from vcheck.monitor import taps
from vcheck.oracle import intervals, packets

PROPERTY = "C19"
LEVEL = "translation_validation"
BUDGET_S = {"quick": 45, "thorough": 600}
FLOOR = {"quick": 400, "thorough": 15000}
MUST_REACH = ("ace_splits_judged", "container_splits_judged", "unsplit_left_alone_judged", "platform_conversions_driven")
RULE = ("IOS ACEs with eq / neq x 1..10 distinct operands on the source and/or destination side, standing anywhere among "
        "other entries (remarks, single-port, range/lt/gt entries) in flat ACLs, ACLs grouped by remark prefix and "
        "stand-alone AceGroups; operations: Ace.ungroup_ports, AceGroup.ungroup_ports, Acl.ungroup_ports, Acl.platform = "
        "'nxos'. judged = monitor evaluations (one per split ACE / container call); each ACL is one program; distinct "
        "non-trivial = (level, src operator, #src, dst operator, #dst, position class, grouped)"
        " Round 4: repeated operands at ACE level, port 0 inside lists."
        " Round 5: entries sharing one uuid; multi-port entries added through the list API to a grouped ACL."
        " Rounds 6-7: same text with other members split in one process; hand-made blocks."
        " Round 9: switches set on a sub-object only before the split.")
ASSUMPTIONS = ["known finding neq-multiport-split (pinned by the repository's tests) is classified by mechanism: the original "
               "operator on a side is neq with >= 2 operands"]

FOUND = []
STATS = {}


def _bump(name, n=1):
    STATS[name] = STATS.get(name, 0) + n


def _ports(port):
    if not port.operator:
        return None
    return (port.operator, tuple(port.items), intervals.from_operator(port.operator, list(port.items)))


def _rest(ace):
    """Everything but the ports."""
    m = sc.ace_obj_meaning(ace)
    return (ace.sequence, m["action"], m["proto"], tuple(m["src"]), tuple(m["dst"]), tuple(sorted(m["flags"])),
            tuple(ace.option.logs), ace.srcaddr.line, ace.dstaddr.line, ace.type, ace.platform)


def _needs_split(ace) -> bool:
    for port in (ace.srcport, ace.dstport):
        if port.operator in ("eq", "neq") and len(port.items) > 1:
            return True
    return False


def _neq_multi(snap) -> bool:
    return any(p and p[0] == "neq" and len(p[1]) > 1 for p in (snap["sport"], snap["dport"]))


def _snap_ace(ace):
    return {"line": ace.line, "rest": _rest(ace), "sport": _ports(ace.srcport), "dport": _ports(ace.dstport),
            "needs": _needs_split(ace), "id": id(ace), "uuid": ace.uuid}


def _judge_split(snap, pieces, where) -> list:
    """Problems of `pieces` (live Aces) as a split of the snapshotted original."""
    problems = []
    full = packets.FULL_PORTS
    for piece in pieces:
        if _rest(piece) != snap["rest"]:
            problems.append(f"piece {piece.line!r} differs from the original in a field other than the ports")
        for side, key in (("srcport", "sport"), ("dstport", "dport")):
            port = getattr(piece, side)
            orig = snap[key]
            if orig is None:
                if port.operator:
                    problems.append(f"piece {piece.line!r} gained a {side}")
            elif port.operator != orig[0]:
                problems.append(f"piece {piece.line!r} changed the {side} operator")
            elif orig[0] in ("eq", "neq") and len(port.items) != 1:
                problems.append(f"piece {piece.line!r} lists {len(port.items)} ports on {side}")
            elif orig[0] not in ("eq", "neq") and tuple(port.items) != orig[1]:
                problems.append(f"piece {piece.line!r} changed {side}")
    # exact union of rectangles
    o_s = snap["sport"][2] if snap["sport"] else full
    o_d = snap["dport"][2] if snap["dport"] else full
    rects = []
    for piece in pieces:
        ps, pd = _ports(piece.srcport), _ports(piece.dstport)
        rects.append((ps[2] if ps else full, pd[2] if pd else full))
    cuts = {1, 65536}
    for rs, _ in rects + [(o_s, o_d)]:
        for lo, hi in rs:
            cuts.update((lo, hi + 1))
    cuts = sorted(cuts)
    for lo, nxt in zip(cuts, cuts[1:]):
        d_union = ()
        for rs, rd in rects:
            if intervals.contains(rs, lo):
                d_union = intervals.union(d_union, rd)
        want = o_d if intervals.contains(o_s, lo) else ()
        if d_union != want:
            extra = intervals.encode(intervals.intersect(d_union, intervals.complement(want)))[:50]
            missing = intervals.encode(intervals.intersect(want, intervals.complement(d_union)))[:50]
            problems.append(f"for source ports {lo}..{nxt - 1} the pieces match destination ports "
                            f"{intervals.encode(d_union)[:50]!r}, the original {intervals.encode(want)[:50]!r} "
                            f"(extra {extra!r}, missing {missing!r})")
            break
    return [f"{where}: {p}" for p in problems]


def _report(snap, problems):
    for prob in problems:
        item = {"what": "split entries do not keep the meaning of the multi-port entry",
                "detail": {"original": snap["line"], "problem": prob}}
        if _neq_multi(snap) and ("pieces match destination ports" in prob or "extra" in prob):
            item["known"] = "neq-multiport-split"
        FOUND.append(item)


def _pre_ace(self, args, kwargs):
    return _snap_ace(self)


def _post_ace(self, args, kwargs, result, exc, token):
    if exc is not None:
        return
    snap = token
    if not snap["needs"]:
        _bump("unsplit_left_alone_judged")
        if not (len(result) == 1 and result[0] is self):
            FOUND.append({"what": "an entry that needs no splitting was replaced", "detail": {"original": snap["line"]}})
        return
    _bump("ace_splits_judged")
    want_n = 1
    for key in ("sport", "dport"):
        if snap[key] and snap[key][0] in ("eq", "neq"):
            want_n *= len(snap[key][1])
    problems = []
    low_n = 1  # with repeated operands ('eq 80 80 443') one piece per operand or one per distinct port are both fine
    for key in ("sport", "dport"):
        if snap[key] and snap[key][0] in ("eq", "neq"):
            low_n *= len(set(snap[key][1]))
    if low_n != want_n:
        _bump("splits_of_repeated_operands_judged")
    if not low_n <= len(result) <= want_n:
        problems.append(f"{len(result)} pieces, expected {want_n}")
    problems += _judge_split(snap, result, "Ace.ungroup_ports")
    _report(snap, problems)


def _flatten(items):
    out = []
    for item in items:
        if type(item).__name__ == "AceGroup":
            out.extend(_flatten(item.items))
        else:
            out.append(item)
    return out


def _pre_container(self, args, kwargs):
    flat = _flatten(self.items)
    return [(_snap_ace(i) if type(i).__name__ == "Ace" else {"line": i.line, "needs": False, "id": id(i), "remark": True}, i)
            for i in flat]


def _post_container(self, args, kwargs, result, exc, token):
    if exc is not None:
        return
    _bump("container_splits_judged")
    new = _flatten(self.items)
    pos = 0
    for snap, obj in token:
        if not snap["needs"]:
            if pos >= len(new) or new[pos] is not obj:
                FOUND.append({"what": "an item that needs no splitting was replaced, moved or dropped",
                              "detail": {"item": snap["line"], "found": new[pos].line if pos < len(new) else None}})
                return
            if new[pos].line != snap["line"]:
                FOUND.append({"what": "an item that needs no splitting changed its text",
                              "detail": {"before": snap["line"], "after": new[pos].line}})
            pos += 1
            continue
        want_n = 1
        for key in ("sport", "dport"):
            if snap[key] and snap[key][0] in ("eq", "neq"):
                want_n *= len(snap[key][1])
        pieces = new[pos:pos + want_n]
        if len(pieces) != want_n or any(type(p).__name__ != "Ace" for p in pieces):
            FOUND.append({"what": "the split entries do not stand where the original stood",
                          "detail": {"original": snap["line"], "found": [p.line for p in pieces]}})
            return
        _report(snap, _judge_split(snap, pieces, type(self).__name__ + ".ungroup_ports"))
        pos += want_n
    if pos != len(new):
        FOUND.append({"what": "extra items after splitting", "detail": [i.line for i in new[pos:]][:5]})


def install():
    from cisco_acl import Ace, AceGroup, Acl  # pylint: disable=import-outside-toplevel

    taps.tap_method(Ace, "ungroup_ports", _post_ace, pre=_pre_ace)
    taps.tap_method(AceGroup, "ungroup_ports", _post_container, pre=_pre_container)
    taps.tap_method(Acl, "ungroup_ports", _post_container, pre=_pre_container)


def _drain(case, ctx):
    for item in FOUND:
        ctx.violation(case, item["what"], item["detail"], known=item.get("known"))
    del FOUND[:]
    if taps.TAP_ERRORS:
        raise RuntimeError("monitor error: " + taps.TAP_ERRORS[0])


def execute(ctx, case: dict) -> None:
    from cisco_acl import Ace, AceGroup, Acl  # pylint: disable=import-outside-toplevel

    level = case["level"]
    try:
        if level == "ace":
            ace = Ace(case["text"], platform="ios")
            for n, addr in enumerate((ace.srcaddr, ace.dstaddr)):
                if addr.addrgroup and case.get("group_members"):
                    addr.items = list(case["group_members"][n])
                    ctx.count("group_members_attached")
            ace.ungroup_ports()
            if case.get("group_members_alt") and (ace.srcaddr.addrgroup or ace.dstaddr.addrgroup):
                # another entry with the very same text but its own members (the same line on another device): its pieces are its own
                other = Ace(case["text"], platform="ios", note="second")
                for n, addr in enumerate((other.srcaddr, other.dstaddr)):
                    if addr.addrgroup:
                        addr.items = list(case["group_members_alt"][n])
                other.ungroup_ports()
                ctx.count("same_text_other_members_split")
            for edit in case.get("edits", []):
                # history on one object: edit through a sub-object setter, then split again
                try:
                    # only a side that already carries a port expression (a Port built without one has no protocol
                    # and hides whatever is assigned to it: not a state the property talks about)
                    if edit[0] == "dstport" and ace.dstport.operator:
                        ace.dstport.line = edit[1]
                    elif edit[0] == "srcport" and ace.srcport.operator:
                        ace.srcport.line = edit[1]
                    elif edit[0] in ("dstport", "srcport"):
                        continue
                    elif edit[0] == "subswitch":
                        # a numeric switch set on a sub-object only (the entry itself is not rebuilt)
                        if edit[1] == "dstport" and ace.dstport.operator:
                            ace.dstport.port_nr = not ace.dstport.port_nr
                        elif edit[1] == "srcport" and ace.srcport.operator:
                            ace.srcport.port_nr = not ace.srcport.port_nr
                        elif edit[1] == "protocol":
                            ace.protocol.protocol_nr = not ace.protocol.protocol_nr
                        else:
                            continue
                    elif edit[0] == "srcaddr":
                        ace.srcaddr.line = edit[1]
                    elif edit[0] == "option":
                        ace.option.line = edit[1]
                    else:
                        continue
                except (ValueError, TypeError):
                    continue
                ctx.count("edit_then_split_again")
                ace.ungroup_ports()
        elif level == "aceg":
            aceg = AceGroup(case["text"], platform="ios")
            _twins_and_loose(ctx, case, aceg)
            aceg.ungroup_ports()
        elif level == "acl":
            acl = Acl(case["text"], platform="ios", group_by=case.get("group_by", ""))
            _twins_and_loose(ctx, case, acl)
            acl.ungroup_ports()
        else:  # platform conversion drives ungroup_ports internally
            acl = Acl(case["text"], platform="ios", group_by=case.get("group_by", ""))
            ctx.count("platform_conversions_driven")
            acl.platform = "nxos"
    except Exception as ex:  # pylint: disable=broad-except
        known = None
        if level == "nxos" and isinstance(ex, ValueError):
            pass
        ctx.violation(case, "splitting raised on a valid IOS ACL", f"{type(ex).__name__}: {ex}", known=known)
    _drain(case, ctx)


def _twins_and_loose(ctx, case, obj) -> None:
    """Histories before the split: an entry rebuilt with the uuid of its neighbour and given another text; a multi-port entry
    put into the container through the list API (for a grouped ACL it stands outside the blocks)."""
    from cisco_acl import Ace  # pylint: disable=import-outside-toplevel

    if case.get("twin"):
        flat = [i for i in _flatten(obj.items) if type(i).__name__ == "Ace"]
        if flat:
            orig = flat[case["twin"][0] % len(flat)]
            try:
                clone = Ace(**orig.data(uuid=True))
                clone.line = case["twin"][1]
                holder = obj
                for blk in obj.items:
                    if type(blk).__name__ == "AceGroup" and orig in blk.items:
                        holder = blk
                pos = holder.items.index(orig)
                holder.items.insert(pos + 1, clone)
                ctx.count("entries_sharing_one_uuid")
            except (ValueError, TypeError):
                pass
    for text in case.get("loose", []):
        obj.append(Ace(text, platform="ios"))
        ctx.count("entries_added_through_the_list_api")
    if case.get("handmade") and type(obj).__name__ == "Acl" and not obj.group_by and len(obj.items) >= 3:
        # a hand-made block in an ACL without group_by (entries before and after it stay loose)
        from cisco_acl import AceGroup  # pylint: disable=import-outside-toplevel

        a = case["handmade"][0] % (len(obj.items) - 1)
        b = min(len(obj.items), a + 1 + case["handmade"][1] % 3)
        chunk = [i for i in obj.items[a:b] if type(i).__name__ in ("Ace", "Remark")]
        if len(chunk) == b - a and chunk:
            obj.items[a:b] = [AceGroup(items=chunk, platform="ios")]
            ctx.count("handmade_blocks")


def _multi_ace(rng, allow_neq=True, dups=False) -> tuple:
    proto = rng.choice(["tcp", "udp"])

    def side():
        roll = rng.random()
        if roll < 0.25:
            return "", ("", 0)
        if roll < 0.4:
            p = grammar.gen_port(rng, proto, "ios", "", ops=["range", "lt", "gt"])
            return " " + p["text"], (p["sem"][0], 1)
        op = "neq" if allow_neq and rng.random() < 0.25 else "eq"
        cnt = rng.choice([1, 2, 2, 3, 4, 10]) if rng.random() < 0.8 else rng.randint(1, 10)
        vals = []
        while len(vals) < cnt:
            v = grammar.rand_port(rng, grammar.port_vocab(proto, "ios", ""))
            if v not in vals:
                vals.append(v)
        if op == "eq" and cnt > 1 and rng.random() < 0.1 and 0 not in vals:
            vals[rng.randrange(len(vals))] = 0  # the boundary port 0 is accepted in a list (its set is judged within 1..65535)
        if dups and op == "eq" and rng.random() < 0.5:  # the same port named twice (number/number or name/number)
            vals.insert(rng.randint(0, len(vals)), rng.choice(vals))
        return f" {op} " + " ".join(str(v) for v in vals), (op, cnt)

    s_txt, s_sig = side()
    d_txt, d_sig = side()
    src = grammar.gen_addr(rng, "ios", allow_group=True, foreign=False)["text"]
    dst = grammar.gen_addr(rng, "ios", allow_group=True, foreign=False)["text"]
    tail = rng.choice(["", "", " log", " ack"]) if proto == "tcp" else rng.choice(["", " log"])
    seq = rng.choice(["", "", "10 ", "4294967295 "])
    return f"{seq}{rng.choice(['permit', 'deny'])} {proto} {src}{s_txt} {dst}{d_txt}{tail}", (s_sig, d_sig)


def gen_cases(ctx):
    rng = ctx.rng
    while True:
        roll = rng.random()
        if roll < 0.35:
            text, sig = _multi_ace(rng, dups=rng.random() < 0.12)
            case = {"level": "ace", "text": text, "sig": sig,
                    "group_members": [["10.1.0.0 0.0.0.255", "host 10.1.1.1"], ["10.2.0.0 0.0.255.255", "host 10.2.2.2", "host 10.2.2.3"]],
                    "group_members_alt": [["host 10.7.7.7"], ["10.8.0.0 0.0.0.3", "host 10.8.8.8"]]}
            if rng.random() < 0.5:
                case["edits"] = [rng.choice([["dstport", "eq 7 8 9"], ["dstport", "eq 11"], ["srcport", "eq 5 6"], ["srcport", "range 3 9"],
                                             ["srcaddr", "host 10.99.0.1"], ["option", ""], ["option", "log"], ["dstport", "neq 5"],
                                             ["dstport", "eq 80"], ["subswitch", "dstport"], ["subswitch", "srcport"], ["subswitch", "protocol"]])
                                 for _ in range(rng.randint(1, 3))]
            yield case
            continue
        heading = rng.choice(["", "", "= "])
        lines = []
        sigs = []
        n = rng.randint(1, 8)
        for idx in range(n):
            r2 = rng.random()
            if r2 < 0.2:
                lines.append(grammar.gen_remark(rng, heading=heading if heading and rng.random() < 0.6 else None,
                                                uniq=f"u{idx}")["text"])
            elif r2 < 0.6:
                text, sig = _multi_ace(rng, allow_neq=rng.random() < 0.5)
                lines.append(text)
                sigs.append(sig)
            elif r2 < 0.7 and sigs and any(" eq " in ln and not ln.startswith("remark") for ln in lines):
                # a later entry textually equal to one piece of an earlier multi-port eq entry (often with another action between)
                src_line = rng.choice([ln for ln in lines if " eq " in ln and not ln.startswith("remark")])
                toks = src_line.split()
                out, k = [], 0
                while k < len(toks):
                    out.append(toks[k])
                    if toks[k] == "eq":
                        vals = []
                        k += 1
                        while k < len(toks) and toks[k].isdigit():
                            vals.append(toks[k])
                            k += 1
                        out.append(rng.choice(vals) if vals else "1")
                        continue
                    k += 1
                if rng.random() < 0.5:
                    lines.append(("deny" if out[0] in ("permit",) or (len(out) > 1 and out[1] == "permit") else "permit") + " ip any any")
                lines.append(" ".join(out))
            else:
                lines.append(grammar.gen_ace(rng, "ios", "", allow_multi=False, foreign=False, ws=False)["text"])
        level = rng.choice(["aceg", "acl", "acl", "nxos"])
        has_neq_multi = any(s[0] == "neq" and s[1] > 1 for sg in sigs for s in sg)
        if level == "nxos" and has_neq_multi:
            level = "acl"
        body = "\n".join("  " + ln for ln in lines)
        extra = {}
        if level in ("aceg", "acl") and rng.random() < 0.15:
            extra["twin"] = [rng.randrange(8), _multi_ace(rng, allow_neq=False)[0]]
        if level == "acl" and rng.random() < 0.2:
            extra["loose"] = [_multi_ace(rng, allow_neq=False)[0] for _ in range(rng.randint(1, 2))]
        if level == "acl" and not heading and rng.random() < 0.3:
            extra["handmade"] = [rng.randrange(8), rng.randrange(3)]
        if level == "aceg":
            yield {"level": "aceg", "text": "\n".join(lines), "sig": tuple(sigs[:2]), "n": n, **extra}
        else:
            yield {"level": level, "text": grammar.acl_header("ios", "S1") + "\n" + body, "group_by": heading,
                   "sig": tuple(sigs[:2]), "n": n, **extra}


def run(ctx) -> None:
    install()
    n_max = {"quick": 2500, "thorough": 40000}[ctx.tier]
    done = 0
    programs = 0
    for case in gen_cases(ctx):
        if ctx.expired() or done >= n_max:
            break
        before = sum(STATS.values())
        sig = case.pop("sig")
        execute(ctx, case)
        done += 1
        programs += 1
        ctx.judged(sig=(case["level"], repr(sig), bool(case.get("group_by")), min(case.get("n", 1), 4)),
                   nontrivial=True, n=max(1, sum(STATS.values()) - before), sample=case if done % 150 == 1 else None)
    for key, val in STATS.items():
        ctx.count(key, val)
    ctx.count("cases", done)
    ctx.extra["programs"] = programs
    ctx.extra["aligned"] = STATS.get("ace_splits_judged", 0)


def merge_extra(extras):
    return {"programs": sum(e.get("programs", 0) for e in extras),
            "disagreements_checked": sum(e.get("aligned", 0) for e in extras)}


def replay(ctx, case: dict) -> None:
    install()
    case = dict(case)
    case.pop("sig", None)
    execute(ctx, case)
    ctx.judged(sig=("replay",))
