"""C16 copy()/data() rebuild an equal, independent object; ids and notes are stable.

Monitors: (a) alias detector - walks the object graphs of source and copy and reports any shared
mutable object other than the user-supplied note; (b) mutate-then-observe histories - snapshot both
sides, mutate one, the other must not change; (c) identity log - (uuid, note) of the receiver and of
the container items before/after every in-place transformation.
"""

from __future__ import annotations

import ipaddress

from vcheck.checks import C06
from vcheck.checks.C11 import _canon

PROPERTY = "C16"
LEVEL = "exploration"
BUDGET_S = {"quick": 50, "thorough": 700}
FLOOR = {"quick": 1000, "thorough": 15000}
MUST_REACH = ("copies_judged", "rebuilds_judged", "alias_walks", "mutations_judged", "identity_checks_judged", "config_built_objects")
RULE = ("objects of all exported classes over the C06 domain (ports, protocols, options, wildcards, addresses incl. groups with "
        "members, address-group members, address groups, remarks, extended/standard ACEs, ACE groups, ACLs flat and grouped, "
        "with notes), each taken through copy() and Class(**data()); 1..4 mutations from a per-class menu (line, platform, "
        "switches, sequence, list append/pop/insert on items/input/output, member edits, resequence, name) applied to the "
        "copy or to the source; in-place transformations (platform, port_nr, protocol_nr, resequence, sort, reverse, group, "
        "ungroup) with (uuid, note) logged before/after. judged = comparisons made; distinct non-trivial = (class, platform, "
        "mutation/transformation kind, side)"
        " Round 4: identifier and note of the blocks (AceGroup objects) under every in-place transformation; platform re-assigned with the same value and with aliases."
        " Round 5: bindings recorded twice through the live input/output lists before copy."
        " Rounds 6-7: identifier and note of address-group members under in-place transformations."
        " Round 8: caller-chosen identifiers in UUID-like spellings; hand-made AceGroups with group_by and a heading remark.")
ASSUMPTIONS = ["the component objects of an ACE (srcaddr/srcport/protocol/option) are rebuilt by design on every Ace.line "
               "assignment; their uuid/note resets are counted, not judged", "AceGroup blocks recreated by an operation that "
               "regroups are not judged for identity", "SwVersion/IPv4Network/IPv4Address objects are immutable values"]

IMMUTABLE = (str, bytes, int, float, bool, type(None), ipaddress.IPv4Network, ipaddress.IPv4Address, frozenset)


def mutable_ids(obj) -> dict:
    """id -> path of every mutable object reachable from obj (the note attribute is not followed)."""
    seen = {}
    stack = [(obj, "")]
    while stack:
        cur, path = stack.pop()
        if isinstance(cur, IMMUTABLE) or type(cur).__name__ == "SwVersion" or callable(cur) and not hasattr(cur, "line"):
            continue
        if id(cur) in seen:
            continue
        if isinstance(cur, dict):
            seen[id(cur)] = path
            for key, val in cur.items():
                if key != "note":
                    stack.append((val, f"{path}[{key!r}]"))
        elif isinstance(cur, (list, set)):
            seen[id(cur)] = path
            for n, val in enumerate(cur):
                stack.append((val, f"{path}[{n}]"))
        elif isinstance(cur, tuple):
            for n, val in enumerate(cur):
                stack.append((val, f"{path}[{n}]"))
        elif hasattr(cur, "__dict__"):
            seen[id(cur)] = path
            for key, val in vars(cur).items():
                if key != "note":
                    stack.append((val, f"{path}.{key}"))
    return seen


def _build(case):
    import cisco_acl  # pylint: disable=import-outside-toplevel

    if case.get("via_config"):
        # the object comes out of the config-level function (members of referenced groups attached by the library)
        objs = cisco_acl.acls(case["text"], **dict(case["kwargs"]))
        if len(objs) != 1:
            raise RuntimeError(f"config generator expected one ACL, got {len(objs)}")
        return objs[0]
    obj = getattr(cisco_acl, case["cls"])(case["text"], **dict(case["kwargs"]))
    if case.get("items"):
        obj.items = list(case["items"])
    if case.get("attach_members") and case["cls"] in ("Ace", "Acl", "AceGroup"):
        # address-group members of ACEs (different ones on the source and on the destination side)
        import random  # pylint: disable=import-outside-toplevel

        from vcheck.checks.C13 import rand_cube, spell  # pylint: disable=import-outside-toplevel

        rng = random.Random(case["rseed"] + 1)
        aces = [obj] if case["cls"] == "Ace" else [i for i in _flat(obj.items) if type(i).__name__ == "Ace"]
        for ace in aces:
            for addr in (ace.srcaddr, ace.dstaddr):
                if addr.addrgroup:
                    texts = [spell(rng, rand_cube(rng, 1), ace.platform, "Address") for _ in range(rng.randint(1, 3))]
                    if rng.random() < 0.5:  # members given as objects with their own notes
                        addr.items = [type(addr)(t, platform=ace.platform, version=str(ace.version), note={"member": n})
                                      for n, t in enumerate(texts)]
                    else:
                        addr.items = texts
    return obj


def _flat(items):
    out = []
    for item in items:
        if type(item).__name__ == "AceGroup":
            out.extend(_flat(item.items))
        else:
            out.append(item)
    return out


def _snap(obj):
    return (obj.line, obj.data())


def _only_block_sequence_differs(d1, d2) -> bool:
    """K4 classifier: the two data() trees differ only in 'sequence' of AceGroup entries (items with 'items')."""
    if isinstance(d1, dict) and isinstance(d2, dict):
        if set(d1) != set(d2):
            return False
        for key in d1:
            if key == "sequence" and isinstance(d1.get("items"), list) and "group_by" in d1:
                continue
            if not _only_block_sequence_differs(d1[key], d2[key]):
                return False
        return True
    if isinstance(d1, list) and isinstance(d2, list):
        return len(d1) == len(d2) and all(_only_block_sequence_differs(a, b) for a, b in zip(d1, d2))
    return d1 == d2


def _norm_any(tree):
    """data() tree with the IOS all-ones wildcard respelled 'any' (K3 classifier helper)."""
    if isinstance(tree, dict):
        out = {k: _norm_any(v) for k, v in tree.items()}
        if out.get("line") == "any" and out.get("type") == "wildcard":
            out["type"] = "any"
        return out
    if isinstance(tree, list):
        return [_norm_any(v) for v in tree]
    if isinstance(tree, str):
        return "\n".join(_canon(x) if x.strip() else x for x in tree.split("\n")) if "255.255.255.255" in tree else tree
    return tree


def _compare(ctx, case, what, src, other):
    """other must equal src in text and data."""
    l1, d1 = _snap(src)
    l2, d2 = _snap(other)
    if l1 != l2:
        known = None
        if "\n".join(_canon(x) for x in l1.split("\n")) == "\n".join(_canon(x) for x in l2.split("\n")):
            known = "ios-slash0-copy"
        ctx.violation(case, f"{what} renders different text", {"source": l1, "other": l2}, known=known)
        return
    diff = C06._diff(d1, d2)
    if diff:
        known = None
        if case["kwargs"].get("group_by") and _only_block_sequence_differs(d1, d2):
            known = "group-by-rebuild-block-sequence"
        elif not C06._diff(_norm_any(d1), _norm_any(d2)):
            known = "ios-slash0-copy"
        elif case["kwargs"].get("group_by") and _only_block_sequence_differs(_norm_any(d1), _norm_any(d2)):
            known = "group-by-rebuild-block-sequence"  # both known mechanisms at once (K4 on an ACL that also has an IOS /0 member)
        ctx.violation(case, f"{what} exports different data", {"line": l1, "difference": diff}, known=known)
    if hasattr(src, "__eq__") and type(src).__name__ not in ("Wildcard",) and not src == other:
        ctx.violation(case, f"{what} is not equal (==) to its source", {"line": l1})


MUTATIONS = {
    "Wildcard": ["line"], "Port": ["line", "items"], "Protocol": ["line", "number"], "Option": ["line"],
    "Address": ["line", "items.append", "platform", "member.line"], "AddressAg": ["line", "sequence", "platform"],
    "AddrGroup": ["items.append", "items.pop", "name", "member.line", "resequence", "member.sequence", "indent"],
    "Remark": ["text", "sequence"],
    "Ace": ["line", "sequence", "platform", "port_nr", "src.items.append", "srcport.line", "option.line"],
    "AceGroup": ["items.append", "items.pop", "item.sequence", "item.line", "resequence", "port_nr", "name"],
    "Acl": ["items.append", "items.pop", "items.insert", "item.sequence", "item.line", "resequence", "port_nr", "protocol_nr",
            "name", "input.append", "output.append", "platform", "group", "ungroup", "indent", "inner.pop"],
}


DIAG = []


def mutate(obj, kind: str, rng) -> bool:
    """Apply one mutation; returns False when not applicable."""
    from cisco_acl import Ace, Remark, AddressAg  # pylint: disable=import-outside-toplevel

    cls = type(obj).__name__
    platform = obj.platform
    try:
        if kind == "line":
            obj.line = {"Wildcard": "10.9.8.0 0.0.0.255", "Port": "eq 4242", "Protocol": "47", "Option": "syn log",
                        "Address": "host 10.9.8.7", "AddressAg": "host 10.9.8.7", "Ace": "77 deny udp any any eq 4242"}[cls]
        elif kind == "items" and cls == "Port":
            if obj.operator in ("eq", "neq"):
                obj.items = [4242]
            else:
                return False
        elif kind == "number":
            obj.number = 47
        elif kind == "items.append" and cls == "Address":
            if not obj.addrgroup:
                return False
            obj.items.append(type(obj)("host 10.9.8.7", platform=platform))
        elif kind == "member.line" and cls == "Address":
            if not obj.items:
                return False
            obj.items[0].line = "host 10.9.8.6"
        elif kind == "platform":
            obj.platform = "nxos" if platform == "ios" else "ios"
        elif kind == "sequence":
            obj.sequence = 4242
        elif kind == "text":
            obj.text = "changed text"
        elif kind == "port_nr":
            obj.port_nr = not obj.port_nr
        elif kind == "protocol_nr":
            obj.protocol_nr = not obj.protocol_nr
        elif kind == "src.items.append":
            if not obj.srcaddr.addrgroup:
                return False
            obj.srcaddr.items.append(type(obj.srcaddr)("host 10.9.8.7", platform=platform))
        elif kind == "srcport.line":
            if obj.protocol.number not in (6, 17):
                return False
            obj.srcport.line = "eq 4242"
        elif kind == "option.line":
            obj.option.line = "log"
        elif kind == "bindings.repeat":
            # the binding lists are live lists: an interface recorded twice (and one more) through them
            if cls != "Acl":
                return False
            obj.input.append(obj.input[0] if obj.input else "interface Ethernet1/9")
            obj.input.append("interface Ethernet1/9")
            obj.input.sort()
            obj.output.append("interface Vlan7")
            obj.output.append("interface Vlan7")
        elif kind == "name":
            obj.name = "RENAMED"
        elif kind == "indent":
            obj.indent = "      "
        elif kind == "resequence":
            if not obj.items:
                return False
            obj.resequence(7, 3)
        elif kind in ("items.append", "items.insert") and cls in ("AceGroup", "Acl"):
            new = Remark("remark appended 4242", platform=platform)
            if kind == "items.append":
                obj.items.append(new)
            else:
                obj.items.insert(0, new)
        elif kind == "items.append" and cls == "AddrGroup":
            obj.items.append(AddressAg("host 10.9.8.7", platform=platform))
        elif kind == "items.pop":
            if not obj.items:
                return False
            obj.items.pop()
        elif kind == "inner.pop":
            grp = [i for i in obj.items if type(i).__name__ == "AceGroup" and len(i.items) > 1]
            if not grp:
                return False
            grp[0].items.pop()
        elif kind in ("item.sequence", "member.sequence"):
            if not obj.items:
                return False
            tgt = obj.items[0]
            if type(tgt).__name__ == "AceGroup":
                tgt = tgt.items[0]
            tgt.sequence = 4242
        elif kind == "item.line":
            flat = _flat(obj.items)
            aces = [i for i in flat if isinstance(i, Ace) and i.type == "extended"]
            if not aces:
                return False
            aces[0].line = "77 deny udp any any eq 4242"
        elif kind == "member.line" and cls == "AddrGroup":
            if not obj.items:
                return False
            obj.items[0].line = "host 10.9.8.6"
        elif kind == "input.append":
            obj.input.append("interface Mutated1")
        elif kind == "output.append":
            obj.output.append("interface Mutated2")
        elif kind == "group":
            obj.group("= ")
        elif kind == "ungroup":
            obj.ungroup()
        else:
            return False
    except (ValueError, TypeError, IndexError):
        return False
    except RecursionError:
        # resequence() on a container that holds an *empty* nested group recurses for ever (C10 excludes empty groups)
        DIAG.append((cls, kind, [type(i).__name__ + ":" + str(len(getattr(i, "items", "x"))) for i in getattr(obj, "items", [])][:8]))
        return False
    return True


TRANSFORMS = ["platform", "platform-same", "port_nr", "protocol_nr", "resequence", "sort", "reverse", "group", "ungroup", "type", "type-switch"]


def _ident(obj):
    return (obj.uuid, id(obj.note))


def identity_check(ctx, case, obj, kind, rng) -> None:
    """(uuid, note) of the receiver and of its judged items must survive an in-place transformation."""
    cls = type(obj).__name__
    has_items = cls in ("Acl", "AceGroup", "AddrGroup")
    before_self = _ident(obj)
    items = _flat(obj.items) if cls in ("Acl", "AceGroup") else (list(obj.items) if has_items else [])
    before_items = [(_ident(i), i.line, type(i).__name__) for i in items]
    # the blocks themselves (AceGroup objects that stand in the container) are objects with identifier and note too
    blocks_before = [(_ident(i), i.line.split("\n")[0]) for i in obj.items if type(i).__name__ == "AceGroup"] \
        if cls in ("Acl", "AceGroup") else []
    platform_before = getattr(obj, "platform", None)

    def member_ids(o):
        """(uuid, note identity) of every address-group member reachable from the object."""
        out = []
        aces = [o] if cls == "Ace" else ([i for i in items if type(i).__name__ == "Ace"] if cls in ("Acl", "AceGroup") else [])
        for ace in aces:
            for addr in (ace.srcaddr, ace.dstaddr):
                out.extend(_ident(m) for m in addr.items)
        if cls == "Address":
            out.extend(_ident(m) for m in o.items)
        return out

    members_before = member_ids(obj)
    multi = any(type(i).__name__ == "Ace" and any(p.operator in ("eq", "neq") and len(p.items) > 1 for p in (i.srcport, i.dstport))
                for i in items)
    try:
        if kind == "platform":
            target = "nxos" if obj.platform == "ios" else "ios"
            if multi and target == "nxos":
                return
            obj.platform = target
        elif kind == "platform-same":
            obj.platform = rng.choice({"ios": ["ios", "cisco_ios"], "nxos": ["nxos", "cnx", "cisco_nxos"]}.get(obj.platform, [obj.platform]))
        elif kind == "port_nr":
            obj.port_nr = not obj.port_nr
        elif kind == "protocol_nr":
            obj.protocol_nr = not obj.protocol_nr
        elif kind == "resequence":
            obj.resequence(10, 10)
        elif kind == "sort":
            obj.sort()
        elif kind == "reverse":
            obj.reverse()
        elif kind == "group":
            obj.group("= ")
        elif kind == "ungroup":
            obj.ungroup()
        elif kind == "type":
            obj.type = obj.type
        elif kind == "type-switch":
            if obj.platform != "ios":
                return
            obj.type = "standard" if obj.type == "extended" else "extended"
        else:
            return
    except (ValueError, TypeError, AttributeError):
        ctx.count("transform_refused")
        return
    except RecursionError:
        ctx.count("empty_group_recursion_not_judged")
        return
    ctx.count("identity_checks_judged")
    if _ident(obj) != before_self:
        ctx.violation(case, f"in-place transformation {kind} changed the uuid or note of the {cls}",
                      {"before": before_self[0], "after": obj.uuid})
    if blocks_before and kind not in ("group", "ungroup"):
        blocks_after = [_ident(i) for i in obj.items if type(i).__name__ == "AceGroup"]
        want_blocks = [b[0] for b in blocks_before]
        same = sorted(blocks_after) == sorted(want_blocks) if kind in ("sort", "reverse") else blocks_after == want_blocks
        ctx.count("block_identities_judged")
        if not same:
            known = None
            if cls == "Acl" and getattr(obj, "group_by", "") and (
                    kind in ("port_nr", "protocol_nr", "type", "type-switch")
                    or (kind in ("platform", "platform-same") and obj.platform == "nxos")):
                # K4: these setters rebuild the ACL through its items setter, which regroups and recreates the blocks
                known = "group-by-rebuild-block-sequence"
            ctx.violation(case, f"in-place transformation {kind} replaced the blocks (AceGroup objects) of the {cls}: new uuid / note",
                          {"blocks": [b[1] for b in blocks_before][:4], "group_by": getattr(obj, "group_by", None),
                           "platform": [platform_before, getattr(obj, "platform", None)]}, known=known)
    if members_before and kind not in ("group", "ungroup", "type-switch"):  # (extended -> standard drops the destination side)
        items = _flat(obj.items) if cls in ("Acl", "AceGroup") else items
        ctx.count("member_identities_judged")
        if sorted(member_ids(obj)) != sorted(members_before):
            ctx.violation(case, f"in-place transformation {kind} replaced address-group members of the {cls} (new uuid / note)",
                          {"members_before": len(members_before), "platform": [platform_before, getattr(obj, "platform", None)]})
    after = _flat(obj.items) if cls in ("Acl", "AceGroup") else (list(obj.items) if has_items else [])
    if kind in ("sort", "reverse"):
        if sorted(i[0][0] for i in before_items) != sorted(i.uuid for i in after) or \
                sorted(i[0][1] for i in before_items) != sorted(id(i.note) for i in after):
            ctx.violation(case, f"{kind} changed uuids or notes of items", {"lines": [i.line for i in after][:6]})
        return
    if len(after) != len(before_items):
        ctx.violation(case, f"{kind} changed the number of items", {"before": len(before_items), "after": len(after)})
        return
    for (ident, line, kls), item in zip(before_items, after):
        if _ident(item) != ident:
            what = "uuid" if item.uuid != ident[0] else "note"
            ctx.violation(case, f"in-place transformation {kind} changed the {what} of a {kls} item",
                          {"item_before": line, "item_after": item.line})
            return


def execute(ctx, case: dict) -> None:
    import random  # pylint: disable=import-outside-toplevel

    rng = random.Random(case["rseed"])
    try:
        src = _build(case)
    except Exception as ex:  # pylint: disable=broad-except
        raise RuntimeError(f"generator produced text the library rejects: {case['text']!r}: {ex}") from ex
    note = {"owner": "user"}
    src.note = note
    cls = type(src).__name__
    if cls in ("Acl", "AceGroup", "AddrGroup"):
        for n, item in enumerate(_flat(src.items) if cls != "AddrGroup" else src.items):
            item.note = {"n": n}
    for step in case.get("pre", []):
        mutate(src, step, rng)
    # 1. copy / rebuild equal
    try:
        cpy = src.copy()
        ctx.count("copies_judged")
        _compare(ctx, case, "copy()", src, cpy)
        rebuilt = type(src)(**src.data())
        if case.get("via_config"):
            ctx.count("config_built_objects")
        ctx.count("rebuilds_judged")
        _compare(ctx, case, "Class(**data())", src, rebuilt)
    except Exception as ex:  # pylint: disable=broad-except
        ctx.violation(case, "copy()/rebuild raised", f"{type(ex).__name__}: {ex}")
        return
    if cpy.note is not note:
        ctx.count("note_not_shared")
    # 2. alias detector
    for other, what in ((cpy, "copy()"), (rebuilt, "Class(**data())")):
        shared = set(mutable_ids(src)) & set(mutable_ids(other))
        ctx.count("alias_walks")
        if shared:
            paths = [mutable_ids(src)[i] for i in list(shared)[:4]]
            ctx.violation(case, f"{what} shares mutable state with its source", {"paths": paths})
    # 3. mutate one side, observe the other
    for kind in case.get("mutations", []):
        side = rng.choice(["copy", "source"])
        victim, witness = (cpy, src) if side == "copy" else (src, cpy)
        before = _snap(witness)
        if not mutate(victim, kind, rng):
            continue
        ctx.count("mutations_judged")
        after = _snap(witness)
        if before[0] != after[0] or C06._diff(before[1], after[1]):
            ctx.violation(case, f"mutating the {side} ({kind}) changed the other object",
                          {"before": before[0], "after": after[0], "data_diff": C06._diff(before[1], after[1])})
            break
    # 4. identity under in-place transformations (on a fresh object)
    if case.get("transforms") and cls in ("Acl", "AceGroup", "AddrGroup", "Ace", "Remark", "AddressAg", "Address"):
        obj = _build(case)
        obj.note = {"owner": "user2"}
        if rng.random() < 0.5:
            # identifiers chosen by the caller, in spellings a UUID parser would also take (upper case, braces, urn, bare hex)
            custom = ["ABCDEF01-2345-6789-ABCD-EF0123456789", "{12345678-1234-5678-1234-567812345678}",
                      "urn:uuid:12345678-1234-5678-1234-567812345679", "0123456789abcdef0123456789ABCDEF", "custom-id-1"]
            obj.uuid = rng.choice(custom)
            if cls in ("Acl", "AceGroup"):
                for n, item in enumerate(_flat(obj.items)[:3]):
                    item.uuid = f"{n}" * 8 + "-AAAA-BBBB-CCCC-" + f"{n}" * 12
            ctx.count("caller_chosen_identifiers")
        if cls in ("Acl", "AceGroup", "AddrGroup"):
            for n, item in enumerate(_flat(obj.items) if cls != "AddrGroup" else obj.items):
                item.note = {"n": n}
            if cls != "AddrGroup":
                for n, item in enumerate(i for i in obj.items if type(i).__name__ == "AceGroup"):
                    item.note = {"block": n}
        for kind in case["transforms"]:
            if kind in ("sort", "reverse", "group", "ungroup", "resequence") and cls not in ("Acl", "AceGroup", "AddrGroup"):
                continue
            if kind in ("group", "ungroup") and cls != "Acl":
                continue
            if kind in ("port_nr", "protocol_nr", "type", "type-switch") and cls in ("AddrGroup", "AddressAg", "Address"):
                continue
            if kind in ("sort", "reverse") and cls == "AddrGroup":
                continue
            identity_check(ctx, case, obj, kind, rng)


def gen_config_case(rng):
    """An ACL built by cisco_acl.acls() from a configuration with address groups."""
    from vcheck.checks.C13 import rand_cube, spell  # pylint: disable=import-outside-toplevel
    from vcheck.gen import grammar  # pylint: disable=import-outside-toplevel
    from vcheck.oracle import bits  # pylint: disable=import-outside-toplevel

    platform = rng.choice(["ios", "nxos"])
    word = "object-group" if platform == "ios" else "addrgroup"
    lines = []
    for name in ("G1", "G2"):
        lines.append(f"object-group network {name}" if platform == "ios" else f"object-group ip address {name}")
        for _ in range(rng.randint(1, 3)):
            cube = rand_cube(rng, 0)
            if cube[1] == bits.ALL:
                cube = bits.cube(cube[0], 255)
            text = spell(rng, cube, platform, "AddressAg")
            lines.append(" " + (text if platform == "nxos" or "/" not in text else "host 10.0.0.9"))
    lines.append(grammar.acl_header(platform, "CFG"))
    heading = rng.choice(["", "= "])
    for idx in range(rng.randint(1, 5)):
        roll = rng.random()
        if roll < 0.25:
            lines.append(" remark " + (heading + f"H{idx}" if heading else f"note {idx}"))
        elif roll < 0.7:
            pair = rng.choice([(f"{word} G1", "any"), ("any", f"{word} G2"), (f"{word} G1", f"{word} G2")])
            lines.append(f" permit {rng.choice(['ip', 'tcp'])} {pair[0]} {pair[1]}")
        else:
            lines.append(" " + grammar.gen_ace(rng, platform, "", allow_group=False, foreign=False, ws=False, allow_multi=False)["text"])
    lines += ["interface Ethernet1/1", " ip access-group CFG in"]
    kwargs = {"platform": platform, "version": rng.choice(["", "15.2(02)SY", "16.09.06"]), "port_nr": rng.random() < 0.3}
    if heading:
        kwargs["group_by"] = heading
    return {"cls": "Acl", "via_config": True, "text": "\n".join(lines) + "\n", "kwargs": kwargs,
            "rseed": rng.randrange(1 << 30), "mutations": [rng.choice(MUTATIONS["Acl"]) for _ in range(rng.randint(1, 3))],
            "transforms": [rng.choice(TRANSFORMS) for _ in range(rng.randint(1, 3))]}


def gen_case(rng):
    if rng.random() < 0.08:
        return gen_config_case(rng)
    while True:
        base = C06.gen_case(rng)
        if base["cls"] in ("acls", "addrgroups", "aces"):
            continue
        break
    cls = base["cls"]
    case = {"cls": cls, "text": base["text"], "kwargs": base["kwargs"], "rseed": rng.randrange(1 << 30)}
    if cls == "Address" and base["text"].split()[0] in ("object-group", "addrgroup"):
        from vcheck.checks.C13 import rand_cube, spell  # pylint: disable=import-outside-toplevel

        case["items"] = [spell(rng, rand_cube(rng, 2), base["kwargs"]["platform"], "Address") for _ in range(rng.randint(1, 3))]
    if cls in ("Ace", "Acl", "AceGroup") and ("object-group" in base["text"] or "addrgroup" in base["text"]):
        case["attach_members"] = True
    if cls in ("Ace", "Acl", "AceGroup", "Address", "AddressAg") and rng.random() < 0.3:
        case["kwargs"] = dict(case["kwargs"], max_ncwb=rng.choice([20, 30, 17]))  # a non-default limit must survive rebuilds
    if cls == "AceGroup" and rng.random() < 0.3:
        # a hand-made, nameless block that carries a group_by prefix and starts with a heading remark
        case["text"] = "remark = HEAD of the block\n" + case["text"]
        case["kwargs"] = dict(case["kwargs"], group_by="= ")
    menu = MUTATIONS.get(cls, [])
    case["mutations"] = [rng.choice(menu) for _ in range(rng.randint(1, 4))] if menu else []
    if cls in ("Acl", "AceGroup", "AddrGroup") and rng.random() < 0.3:
        case["pre"] = ["resequence"]
    if cls == "Acl" and rng.random() < 0.25:
        case["pre"] = case.get("pre", []) + ["bindings.repeat"]
    case["transforms"] = [rng.choice(TRANSFORMS) for _ in range(rng.randint(1, 4))]
    return case


def run(ctx) -> None:
    rng = ctx.rng
    n_max = {"quick": 1500, "thorough": 25000}[ctx.tier]
    done = 0
    keys = ("copies_judged", "rebuilds_judged", "alias_walks", "mutations_judged", "identity_checks_judged")
    while done < n_max and not ctx.expired():
        case = gen_case(rng)
        before = sum(ctx.counters.get(k, 0) for k in keys)
        execute(ctx, case)
        done += 1
        ctx.judged(sig=(case["cls"], case["kwargs"].get("platform"), tuple(case["mutations"][:2]), tuple(case["transforms"][:2]),
                        bool(case["kwargs"].get("group_by")), bool(case.get("pre"))),
                   nontrivial=True, n=max(1, sum(ctx.counters.get(k, 0) for k in keys) - before),
                   sample=case if done % 200 == 1 else None)
    ctx.count("cases", done)
    if DIAG:
        ctx.count("empty_group_recursion_not_judged", len(DIAG))
        ctx.notes.append("recursion diag: " + repr(DIAG[:3]))


def replay(ctx, case: dict) -> None:
    execute(ctx, case)
    ctx.judged(sig=("replay",))
