"""C14 Collapsing addresses preserves the covered address set exactly.

Monitor: icontract post-conditions (snapshot of the inputs + ensure on the result) on
cisco_acl.address.collapse and cisco_acl.address_ag.collapse. Oracle: exact union equality on cubes.
"""

from __future__ import annotations

import itertools

from vcheck.monitor import taps
from vcheck.oracle import bits
from vcheck.checks.C13 import spell

PROPERTY = "C14"
LEVEL = "exploration"
BUDGET_S = {"quick": 40, "thorough": 600}
FLOOR = {"quick": 1500, "thorough": 15000}
MUST_REACH = ("contract_evaluations", "merges_observed", "refusals_judged", "repeated_collapse_same_objects", "iterable_arguments")
RULE = ("lists of 1..24 contiguous addresses built to trigger chains of merges (sibling pairs at several levels, supernets "
        "before/after subnets, duplicates, /0, two /1, /32 pairs, notes on inputs), every spelling, both address classes, "
        "both platforms, all permutations of lists with <= 5 elements (thorough) or a few shuffles (quick); refusal cases: "
        "non-contiguous wildcard, foreign class, strings. judged = icontract evaluations; distinct non-trivial = (class, "
        "platform, n, #result, merge depth) with at least one merge or removal"
        " Round 4: refusal inputs made of foreign elements only."
        " Round 5: inputs that were group references before; numbered AddressAg inputs."
        " Round 9: lists of 70..95 elements; odd adjacent host pairs.")
ASSUMPTIONS = ["an IOS AddressAg list whose union is 0.0.0.0/0 raises ValueError: an IOS group cannot hold it (refusal)",
               "the result need not be minimal; the statement demands 'never more elements than the input'"]

FOUND = []
STATS = {"contract": 0, "merges": 0}


class CollapseBroken(Exception):
    """icontract post-condition failed."""


def _cube_of(addr):
    base, mask = addr.wildcard.split()
    return bits.cube(bits.ip2int(base), bits.ip2int(mask))


def _snap(addresses):
    out = []
    if not isinstance(addresses, (list, tuple)):
        return out
    for a in list(addresses):
        try:
            out.append((type(a).__name__, a.platform, a.line, _cube_of(a)))
        except (AttributeError, ValueError):
            out.append((type(a).__name__, "", repr(a), (0, 0)))
    return out


def _post(addresses, result, OLD) -> bool:
    if not isinstance(addresses, (list, tuple)):
        return True  # one-shot iterables are judged by the driver (a snapshot would consume them)
    return _judge(OLD.inp, result, addresses)


def _judge(snap, result, addresses=None) -> bool:
    STATS["contract"] += 1
    problems = []
    before = [c for _, _, _, c in snap]
    after = [_cube_of(r) for r in result]
    if not bits.union_subset(before, after):
        problems.append(f"address {bits.int2ip(bits.union_witness(before, after))} was lost")
    if not bits.union_subset(after, before):
        problems.append(f"address {bits.int2ip(bits.union_witness(after, before))} was gained")
    if len(result) > len(snap):
        problems.append(f"{len(result)} elements from {len(snap)}")
    STATS["last"] = (len(snap), len(result), min(32 - bits.popcount(c[1]) for c in after) if after else -1)
    if len(result) < len(snap):
        STATS["merges"] += 1
    keys = [(c[0], 32 - bits.popcount(c[1])) for c in after]
    if keys != sorted(keys):
        problems.append(f"result not sorted: {[r.line for r in result][:8]}")
    if any(not bits.is_contiguous(c[1]) for c in after):
        problems.append("non-contiguous element in the result")
    if snap:
        cls, platform = snap[0][0], snap[0][1]
        for res in result:
            if type(res).__name__ != cls or res.platform != platform:
                problems.append(f"result element {res!r} is not a {cls} on {platform}")
            if res.note:
                problems.append(f"result element carries a note: {res.note!r}")
    # inputs untouched
    now = _snap(list(addresses)) if isinstance(addresses, list) else snap
    if now != snap:
        problems.append("collapse changed its input objects")
    for prob in problems:
        FOUND.append({"what": "collapse does not preserve the covered address set / result contract", "detail": prob})
    return True


def install():
    import icontract  # pylint: disable=import-outside-toplevel
    from cisco_acl import address, address_ag  # pylint: disable=import-outside-toplevel

    for mod in (address, address_ag):
        wrapped = icontract.snapshot(_snap, name="inp")(icontract.ensure(_post, error=CollapseBroken)(mod.collapse))
        taps.replace_function(mod, "collapse", wrapped)


def _drain(case, ctx):
    for item in FOUND:
        ctx.violation(case, item["what"], item["detail"])
    del FOUND[:]


def execute(ctx, case: dict) -> None:
    from cisco_acl import Address, AddressAg, address, address_ag  # pylint: disable=import-outside-toplevel

    platform = case["platform"]
    cls = Address if case["cls"] == "Address" else AddressAg
    func = address.collapse if case["cls"] == "Address" else address_ag.collapse
    kind = case.get("k", "valid")
    if kind == "refuse":
        items = []
        for text in case["items"]:
            if text.startswith("str:"):
                items.append(text[4:])
            elif text.startswith("other:"):
                other = AddressAg if cls is Address else Address
                items.append(other(text[6:], platform=platform))
            else:
                items.append(cls(text, platform=platform))
        try:
            func(items)
        except TypeError:
            ctx.count("refusals_judged")
        except Exception as ex:  # pylint: disable=broad-except
            ctx.violation(case, "a non-contiguous/foreign input raised an undocumented error", f"{type(ex).__name__}: {ex}")
        else:
            ctx.violation(case, "a non-contiguous or foreign input was not refused", case["items"])
        del FOUND[:]
        return
    objs = []
    for n, text in enumerate(case["items"]):
        if n in case.get("former_groups", []) and case["cls"] == "Address":
            # an address that was a group reference with members before it got its (plain, contiguous) text
            word = "object-group" if platform == "ios" else "addrgroup"
            obj = cls(f"{word} OLD{n}", platform=platform, note=f"n{n}" if n % 3 == 0 else None,
                      items=["host 10.250.0.1", "10.251.0.0/30" if platform == "nxos" else "10.251.0.0 0.0.0.3"])
            obj.line = text
            ctx.count("inputs_that_were_groups_before")
        else:
            obj = cls(text, platform=platform, note=f"n{n}" if n % 3 == 0 else None)
        if n in case.get("numbered", []) and case["cls"] == "AddressAg":
            obj.sequence = 10 * (n + 1)  # a numbered group entry (NX-OS native, IOS after resequence)
            ctx.count("numbered_inputs")
        objs.append(obj)
    union_all = bits.union_size([_cube_of(o) for o in objs]) == 1 << 32
    try:
        kind = case.get("container", "list")
        if kind == "list":
            func(objs)
        else:
            snap = _snap(objs)
            arg = {"tuple": tuple(objs), "iter": iter(objs), "gen": (o for o in objs), "map": map(lambda o: o, objs)}[kind]
            res = func(arg)
            ctx.count("iterable_arguments")
            if kind != "tuple":
                _judge(snap, res)
        for again in case.get("again", []):
            # history on the same objects: permutation / sub-list / single element / same list again
            sub = [objs[i] for i in again if i < len(objs)]
            if sub:
                ctx.count("repeated_collapse_same_objects")
                func(sub)
    except ValueError as ex:
        if case["cls"] == "AddressAg" and platform == "ios" and union_all:
            ctx.count("rejected_as_expected_ios_group_any")
        else:
            ctx.violation(case, "collapse raised on a valid list", f"ValueError: {ex}")
    except CollapseBroken:
        raise
    except Exception as ex:  # pylint: disable=broad-except
        ctx.violation(case, "collapse raised on a valid list", f"{type(ex).__name__}: {ex}")
    _drain(case, ctx)


def _rand_ip(rng) -> int:
    return (rng.choice([10, 172, 192, 0, 255, 128]) << 24) | rng.getrandbits(24)


def build_list(rng) -> list:
    """Cubes arranged so that merges chain."""
    cubes = []
    n_seeds = rng.randint(1, 4)
    for _ in range(n_seeds):
        plen = rng.choice([0, 1, 8, 16, 22, 24, 27, 30, 31, 32]) if rng.random() < 0.5 else rng.randint(0, 32)
        base = bits.prefix_cube(_rand_ip(rng), plen)
        roll = rng.random()
        if roll < 0.5 and plen < 32:
            # split the block into a chain of siblings: /p -> two /p+1 -> one of them into two /p+2 ...
            depth = rng.randint(1, min(4, 32 - plen))
            cur = base
            for lvl in range(depth):
                half = 1 << (32 - (plen + lvl) - 1)
                low = bits.prefix_cube(cur[0], plen + lvl + 1)
                high = bits.prefix_cube(cur[0] | half, plen + lvl + 1)
                keep, cur = (low, high) if rng.random() < 0.5 else (high, low)
                cubes.append(keep)
                if lvl == depth - 1:
                    if rng.random() < 0.8:
                        cubes.append(cur)
        elif roll < 0.7:
            cubes.append(base)
            if plen < 32:
                cubes.append(bits.prefix_cube(base[0] | rng.getrandbits(32 - plen), rng.randint(plen, 32)))
        else:
            cubes.append(base)
        if rng.random() < 0.25:
            cubes.append(rng.choice(cubes))
    rng.shuffle(cubes)
    return cubes[:24]


def gen_cases(ctx):
    rng = ctx.rng
    thorough = ctx.tier == "thorough"
    # fixed boundary lists
    fixed = [
        [(0, 0x7FFFFFFF), (0x80000000, 0x7FFFFFFF)],  # two /1
        [(0, bits.ALL)],
        [(0x0A000000, 0), (0x0A000001, 0)],
        [(0x0A000000, 0), (0x0A000001, 0), (0x0A000002, 1)],
        [(0x0A000000, 0x7F), (0x0A000080, 0x3F), (0x0A0000C0, 0x3F)],
        [(0x0A0000C0, 0x3F), (0x0A000080, 0x3F), (0x0A000000, 0x7F)],
        [(0xFFFFFFFF, 0), (0xFFFFFFFE, 0)],
        [(0, 0), (1, 0), (2, 0), (3, 0), (4, 3)],
    ]
    # a block given literally and as its halves, its sibling only as halves: every ordering (a rebuilt supernet may come out after its half)
    five = [(0x0A000000, 1), (0x0A000002, 1), (0x0A000004, 1), (0x0A000006, 1), (0x0A000000, 3)]
    for n, perm in enumerate(itertools.permutations(five)):
        if n % ctx.nshards == ctx.shard:
            cls = "Address" if n % 2 else "AddressAg"
            platform = "nxos" if n % 4 < 2 else "ios"
            texts = [spell(rng, c, platform, cls) for c in perm]
            if None not in texts:
                yield {"cls": cls, "platform": platform, "items": texts, "perm": True}
    for n, cubes in enumerate(fixed):
        if n % ctx.nshards == ctx.shard:
            for cls in ("Address", "AddressAg"):
                for platform in ("ios", "nxos"):
                    texts = [spell(rng, c, platform, cls) for c in cubes]
                    if None not in texts:
                        yield {"cls": cls, "platform": platform, "items": texts}
    while True:
        cls = rng.choice(["Address", "AddressAg"])
        platform = rng.choice(["ios", "nxos"])
        if rng.random() < 0.06:
            # refusals
            good = spell(rng, bits.prefix_cube(_rand_ip(rng), 24), platform, cls)
            roll = rng.random()
            if roll < 0.4 and not (cls == "AddressAg" and platform == "ios"):
                bad = "10.0.0.0 0.0.3.3" if roll < 0.2 else "10.1.0.0 0.255.0.255"
            elif roll < 0.7:
                bad = "other:host 10.0.0.1"
            else:
                bad = "str:10.0.0.0 0.0.0.3"
            items = [good, bad] if rng.random() < 0.5 else [bad, good]
            shape = rng.random()
            if shape < 0.2:
                items = [bad]  # nothing but the offending element
            elif shape < 0.4 and not bad.startswith("10."):
                # a whole list of the foreign kind (no element of the right class to compare with)
                kind_ = bad.split(":")[0]
                items = [f"{kind_}:host 10.0.0.{n + 1}" if kind_ == "other" else f"{kind_}:10.0.{n}.0 0.0.0.255"
                         for n in range(rng.randint(2, 3))]
            if bad.startswith("10.") and not bad.startswith("10.1.0.0 0.255") and rng.random() < 0.5:
                # a non-contiguous wildcard completely covered by an earlier address is refused all the same
                cover = rng.choice(["10.0.0.0/8" if platform == "nxos" or cls == "Address" else "10.0.0.0 255.0.0.0",
                                    "any" if cls == "Address" else ("0.0.0.0/0" if platform == "nxos" else "10.0.0.0 255.0.0.0")])
                if cls == "AddressAg" and platform == "ios" and "/" in cover:
                    cover = "10.0.0.0 255.0.0.0"
                items = [cover, bad]
            yield {"k": "refuse", "cls": cls, "platform": platform, "items": items}
            continue
        cubes = build_list(rng)
        if rng.random() < 0.08:
            # adjacent hosts whose lower address is odd (not a /31), and the pair that is one
            base = (_rand_ip(rng) & ~3) | 1
            cubes += [bits.cube(base, 0), bits.cube(base + 1, 0)] + ([bits.cube(base + 2, 0)] if rng.random() < 0.5 else [])
        if rng.random() < 0.03:
            # a long list: a narrow network listed before a wider one with the same first address, among many unrelated hosts
            start = _rand_ip(rng) & ~0xFF
            cubes = [bits.cube(start, 3), bits.cube(start, 255)] + cubes[:3] + \
                    [bits.cube((rng.choice([11, 12, 13]) << 24) | (n << 8) | 1, 0) for n in range(rng.randint(66, 90))]
        texts = [spell(rng, c, platform, cls) for c in cubes]
        if None in texts or not texts:
            continue
        case = {"cls": cls, "platform": platform, "items": texts, "container": rng.choice(["list", "list", "list", "tuple", "iter", "gen", "map"])}
        if rng.random() < 0.4:
            n = len(texts)
            case["again"] = [rng.sample(range(n), rng.randint(1, n)) for _ in range(rng.randint(1, 3))]
        if cls == "Address" and rng.random() < 0.15:
            case["former_groups"] = rng.sample(range(len(texts)), rng.randint(1, min(2, len(texts))))
        if cls == "AddressAg" and rng.random() < 0.3:
            case["numbered"] = [0] + rng.sample(range(len(texts)), rng.randint(0, len(texts) - 1))
        yield case
        if len(texts) <= 5 and len(cubes) <= 5:
            perms = list(itertools.permutations(texts))
            if not thorough:
                perms = rng.sample(perms, min(3, len(perms)))
            for perm in perms:
                yield {"cls": cls, "platform": platform, "items": list(perm), "perm": True}


def run(ctx) -> None:
    install()
    n_max = {"quick": 6000, "thorough": 100000}[ctx.tier]
    done = 0
    for case in gen_cases(ctx):
        if ctx.expired() or done >= n_max:
            break
        m0, c0 = STATS["merges"], STATS["contract"]
        execute(ctx, case)
        done += 1
        merged = STATS["merges"] > m0
        ctx.judged(sig=(case.get("k", "valid"), case["cls"], case["platform"], len(case["items"]), merged,
                        bool(case.get("perm")), STATS.get("last")),
                   nontrivial=merged or case.get("k") == "refuse", n=max(1, STATS["contract"] - c0),
                   sample=case if merged and done % 40 == 0 else None)
    ctx.count("contract_evaluations", STATS["contract"])
    ctx.count("merges_observed", STATS["merges"])
    ctx.count("cases", done)


def replay(ctx, case: dict) -> None:
    install()
    execute(ctx, case)
    ctx.judged(sig=("replay",))
