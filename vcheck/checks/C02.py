"""C02 IOS <-> NX-OS conversion changes spelling only, never the ACL's meaning.

Monitors: pre/post taps on the platform setters of Acl, AceGroup, Ace, Address, AddressAg and
AddrGroup (per-ACL translation validation; the inner setters are judged on every call the outer ones
make). Oracle: rule-wise semantic alignment through public views, target-grammar validator (reader),
there-back-there text convergence.
"""

from __future__ import annotations

from vcheck.checks import shadow_common as sc
from vcheck.checks.C13 import rand_cube, spell
from vcheck.gen import grammar
from vcheck.monitor import taps
from vcheck.oracle import bits, names, reader

PROPERTY = "C02"
LEVEL = "translation_validation"
BUDGET_S = {"quick": 50, "thorough": 700}
FLOOR = {"quick": 800, "thorough": 8000}
MUST_REACH = ("acl_conversions_judged", "ace_conversions_judged", "address_conversions_judged", "addrgroup_conversions_judged",
              "splits_aligned", "roundtrip_texts_compared", "grouped_acls")
RULE = ("extended ACLs as programs (1..10 remarks/ACEs over the C01 grammar: every address form incl. non-contiguous "
        "wildcards and group references with attached members, 5 port operators, multi-port eq on IOS, version-only names "
        "such as msrpc/onep-*/syslog/ripv6/drip, flags, logs, sequence numbers), flat and grouped by remark prefix, both "
        "directions, all switch settings and version strings; stand-alone Ace, Address, AddressAg and AddrGroup objects "
        "(members that cannot be expressed on the target must raise ValueError: rejected_as_expected). judged = platform "
        "setter calls monitored; programs = ACLs converted; distinct non-trivial = (class, direction, grouped, #splits, "
        "member kinds, named ports, switches)"
        " Round 4: repeats inside the ACL (separator remark twice, exact duplicates, an entry equal to one piece of an earlier multi-port entry)."
        " Round 5: loose entries inserted among the blocks of a grouped ACL before the conversion; group names that contain a keyword; lower-case nested group names."
        " Rounds 6-7: multi-port and repeated-port entries converted at ACE level (refusal or valid target syntax).")
ASSUMPTIONS = ["entries with a multi-port neq are owned by C19 and excluded", "split entries keep the original's sequence number "
               "(uniqueness is not demanded)", "sequence numbers of address-group members are not judged (IOS members carry "
               "none natively)", "per-platform name vocabularies come from the library's tables; numbers from oracle/names.py"]

FOUND = []
STATS = {}
DEPTH = {"acl": 0}


def _bump(name, n=1):
    STATS[name] = STATS.get(name, 0) + n


def _flat(items):
    out = []
    for item in items:
        if type(item).__name__ == "AceGroup":
            out.extend(_flat(item.items))
        else:
            out.append(item)
    return out


def _addr_snap(addr):
    cubes, grouped, _ = sc.addr_cubes(addr)
    return ("group", addr.addrgroup, tuple(sorted(cubes))) if grouped else ("cube", cubes[0])


def _ace_snap(ace):
    return {"kind": "ace", "seq": ace.sequence, "action": ace.action, "proto": ace.protocol.number,
            "src": _addr_snap(ace.srcaddr), "dst": _addr_snap(ace.dstaddr),
            "sport": (ace.srcport.operator, tuple(ace.srcport.items)) if ace.srcport.operator else None,
            "dport": (ace.dstport.operator, tuple(ace.dstport.items)) if ace.dstport.operator else None,
            "sset": sc.port_set(ace.srcport), "dset": sc.port_set(ace.dstport),
            "flags": tuple(ace.option.flags), "logs": tuple(ace.option.logs), "line": ace.line, "uuid": ace.uuid,
            "type": ace.type}


def _item_snap(item):
    if type(item).__name__ == "Remark":
        return {"kind": "remark", "seq": item.sequence, "text": item.text, "line": item.line, "uuid": item.uuid}
    return _ace_snap(item)


def _sem_equal(a, b, ports=True) -> list:
    diffs = []
    keys = ["kind", "seq", "action", "proto", "src", "dst", "flags", "logs"] + (["sport", "dport"] if ports else [])
    for key in keys:
        if a.get(key) != b.get(key):
            diffs.append(f"{key}: {a.get(key)!r} -> {b.get(key)!r}")
    return diffs


def _multi(snap) -> bool:
    return any(snap.get(k) and snap[k][0] in ("eq", "neq") and len(snap[k][1]) > 1 for k in ("sport", "dport"))


def _validate_line(line, platform, version, acl_type="extended") -> list:
    return reader.validate_ace_line(line, platform, acl_type, lambda p: grammar.port_vocab(p, platform, version),
                                    grammar.proto_out_vocab(platform))


def _blocks(acl):
    return [len(i.items) if type(i).__name__ == "AceGroup" else 0 for i in acl.items]


# ---- Acl


def _pre_acl(self, value):
    DEPTH["acl"] += 1
    flat = _flat(self.items)
    return {"from": self.platform, "items": [_item_snap(i) for i in flat], "name": self.name, "input": list(self.input),
            "output": list(self.output), "blocks": _blocks(self), "group_by": self.group_by, "type": self.type,
            "version": str(self.version)}


def _on_acl(self, value, exc, token):
    DEPTH["acl"] -= 1
    snap = token
    target = {"cisco_nxos": "nxos", "cnx": "nxos", "cisco_ios": "ios"}.get(value, value)
    if snap is None or target not in ("ios", "nxos") or snap["from"] not in ("ios", "nxos"):
        return
    if any(i["kind"] == "ace" and _multi(i) and (i["sport"] or ("",))[0] == "neq" or
           i["kind"] == "ace" and _multi(i) and (i["dport"] or ("",))[0] == "neq" for i in snap["items"]):
        _bump("neq_multi_excluded")
        return
    if snap["type"] != "extended":
        return
    _bump("acl_conversions_judged")
    if snap["group_by"] and any(snap["blocks"]):
        _bump("grouped_acls")
    desc = {"direction": f"{snap['from']}->{target}", "before": [i["line"] for i in snap["items"]]}
    if exc is not None:
        FOUND.append({"what": "platform conversion raised on a valid extended ACL", "detail": {**desc, "error": repr(exc)}})
        return
    new = [_item_snap(i) for i in _flat(self.items)]
    desc["after"] = [i["line"] for i in new]
    problems = []
    pos = 0
    for old in snap["items"]:
        if old["kind"] == "ace" and _multi(old) and target == "nxos":
            svals = old["sport"][1] if old["sport"] and old["sport"][0] == "eq" and len(old["sport"][1]) > 1 else None
            dvals = old["dport"][1] if old["dport"] and old["dport"][0] == "eq" and len(old["dport"][1]) > 1 else None
            count = (len(svals) if svals else 1) * (len(dvals) if dvals else 1)
            pieces = new[pos:pos + count]
            if len(pieces) != count:
                problems.append(f"entry {old['line']!r} was not replaced by {count} adjacent entries")
                break
            want_pairs = {(s, d) for s in (svals or [None]) for d in (dvals or [None])}
            got_pairs = set()
            for piece in pieces:
                diffs = _sem_equal(old, piece, ports=False)
                if diffs:
                    problems.append(f"split piece {piece['line']!r} of {old['line']!r}: {diffs}")
                sp = piece["sport"][1][0] if svals and piece["sport"] and len(piece["sport"][1]) == 1 else None
                dp = piece["dport"][1][0] if dvals and piece["dport"] and len(piece["dport"][1]) == 1 else None
                if not svals and piece["sport"] != old["sport"]:
                    problems.append(f"split piece {piece['line']!r} changed the source port")
                if not dvals and piece["dport"] != old["dport"]:
                    problems.append(f"split piece {piece['line']!r} changed the destination port")
                got_pairs.add((sp, dp))
            if got_pairs != want_pairs:
                problems.append(f"split of {old['line']!r} covers port pairs {sorted(got_pairs, key=str)[:6]}, expected {sorted(want_pairs, key=str)[:6]}")
            _bump("splits_aligned")
            pos += count
            continue
        if pos >= len(new):
            problems.append(f"item {old['line']!r} was lost")
            break
        diffs = _sem_equal(old, new[pos]) if old["kind"] == "ace" else (
            [] if (new[pos]["kind"], new[pos].get("seq"), new[pos].get("text")) == ("remark", old["seq"], old["text"])
            else [f"remark {old['line']!r} -> {new[pos]['line']!r}"])
        if diffs:
            problems.append(f"item {old['line']!r} became {new[pos]['line']!r}: {diffs}")
        pos += 1
    if not problems and pos != len(new):
        problems.append(f"{len(new) - pos} extra items after conversion")
    for item in new:
        if item["kind"] == "ace":
            bad = _validate_line(item["line"], target, snap["version"])
            if bad:
                problems.append(f"line {item['line']!r} is not valid {target} syntax: {bad}")
    if self.name != snap["name"] or list(self.input) != snap["input"] or list(self.output) != snap["output"]:
        problems.append("name or interface bindings changed")
    if self.platform != target:
        problems.append(f"platform is {self.platform!r}")
    if self.group_by != snap["group_by"]:
        problems.append("group_by changed")
    head = self.line.split("\n")[0].split()
    want_head = ["ip", "access-list"] + (["extended"] if target == "ios" else []) + [snap["name"]]
    if head != want_head:
        problems.append(f"header {head} expected {want_head}")
    for prob in problems:
        FOUND.append({"what": "platform conversion changed the meaning / structure of the ACL", "detail": {**desc, "problem": prob}})


# ---- Ace / Address / AddressAg / AddrGroup / AceGroup (stand-alone and inner calls)


def _pre_ace(self, value):
    return {"from": self.platform, "snap": _ace_snap(self), "version": str(self.version)}


def _on_ace(self, value, exc, token):
    target = {"cisco_nxos": "nxos", "cnx": "nxos", "cisco_ios": "ios"}.get(value, value)
    if token is None or target not in ("ios", "nxos") or token["from"] not in ("ios", "nxos"):
        return
    old = token["snap"]
    if old["type"] != "extended":
        return
    if _multi(old):
        # an entry cannot split itself: a refusal is fine, but whatever it returns must be syntax of the target platform
        if exc is None:
            _bump("multi_port_ace_conversions_returned")
            bad = _validate_line(self.line, target, token["version"])
            for prob in bad:
                FOUND.append({"what": "Ace.platform returned a multi-port entry that is not valid syntax on the target platform",
                              "detail": {"before": old["line"], "after": self.line, "direction": f"{token['from']}->{target}", "problem": prob}})
        else:
            _bump("multi_port_ace_conversions_refused")
        return
    _bump("ace_conversions_judged")
    if exc is not None:
        FOUND.append({"what": "Ace.platform raised on a valid single-port ACE",
                      "detail": {"line": old["line"], "direction": f"{token['from']}->{target}", "error": repr(exc)}})
        return
    new = _ace_snap(self)
    diffs = _sem_equal(old, new)
    bad = _validate_line(new["line"], target, token["version"])
    if new["uuid"] != old["uuid"]:
        _bump("ace_uuid_changed_not_judged_here")
    for prob in diffs + [f"not valid {target} syntax: {b}" for b in bad]:
        FOUND.append({"what": "Ace.platform changed the meaning of the entry",
                      "detail": {"before": old["line"], "after": new["line"], "direction": f"{token['from']}->{target}", "problem": prob}})


def _pre_addr(self, value):
    try:
        return {"from": self.platform, "snap": _addr_snap(self), "line": self.line, "cls": type(self).__name__}
    except Exception:  # pylint: disable=broad-except
        return None


def _addr_form_ok(line, platform, cls) -> str:
    toks = line.split()
    if cls == "AddressAg":
        if toks and toks[0].isdigit() and len(toks) > 1 and "." not in toks[0]:
            toks = toks[1:]
        try:
            reader.read_group_member(" ".join(toks), platform)
        except reader.ReadError as ex:
            return str(ex)
        if platform == "ios" and "/" in toks[0]:
            return "prefix notation in an IOS group"
        return ""
    try:
        _, _, form = reader.read_addr(toks, 0)
    except reader.ReadError as ex:
        return str(ex)
    if form == "prefix" and platform == "ios":
        return "prefix notation on IOS"
    if form == "object-group" and platform == "nxos":
        return "object-group on NX-OS"
    if form == "addrgroup" and platform == "ios":
        return "addrgroup on IOS"
    return ""


def _on_addr(self, value, exc, token):
    target = {"cisco_nxos": "nxos", "cnx": "nxos", "cisco_ios": "ios"}.get(value, value)
    if token is None or target not in ("ios", "nxos") or token["from"] not in ("ios", "nxos"):
        return
    cls = token["cls"]
    old = token["snap"]
    _bump("address_conversions_judged")
    if exc is not None:
        expressible = True
        if cls == "AddressAg":
            cubes = [old[1]] if old[0] == "cube" else []
            if old[0] == "group" and target == "nxos":
                expressible = False
            for cube in cubes:
                if target == "ios" and (not bits.is_contiguous(cube[1]) or cube[1] == bits.ALL):
                    expressible = False
        if not expressible and isinstance(exc, ValueError):
            _bump("rejected_as_expected")
            return
        FOUND.append({"what": f"{cls}.platform raised on an address the target platform can express",
                      "detail": {"line": token["line"], "direction": f"{token['from']}->{target}", "error": repr(exc)}})
        return
    new = _addr_snap(self)
    if new != old:
        FOUND.append({"what": f"{cls}.platform changed the address set or lost members",
                      "detail": {"before": token["line"], "after": self.line, "direction": f"{token['from']}->{target}",
                                 "old": repr(old)[:200], "new": repr(new)[:200]}})
    bad = _addr_form_ok(self.line, target, cls)
    if bad:
        FOUND.append({"what": f"{cls}.platform rendered syntax that is not valid on the target",
                      "detail": {"before": token["line"], "after": self.line, "problem": bad}})


def _pre_addrgroup(self, value):
    members = []
    for item in self.items:
        members.append(_addr_snap(item))
    return {"from": self.platform, "members": members, "name": self.name, "line": self.line}


def _on_addrgroup(self, value, exc, token):
    target = {"cisco_nxos": "nxos", "cnx": "nxos", "cisco_ios": "ios"}.get(value, value)
    if token is None or target not in ("ios", "nxos") or token["from"] not in ("ios", "nxos"):
        return
    _bump("addrgroup_conversions_judged")
    expressible = True
    for mem in token["members"]:
        if mem[0] == "group" and target == "nxos":
            expressible = False
        if mem[0] == "cube" and target == "ios" and (not bits.is_contiguous(mem[1][1]) or mem[1][1] == bits.ALL):
            expressible = False
    if exc is not None:
        if not expressible and isinstance(exc, ValueError):
            _bump("rejected_as_expected")
        else:
            FOUND.append({"what": "AddrGroup.platform raised although every member can be expressed on the target",
                          "detail": {"group": token["line"], "error": repr(exc)}})
        return
    new = [_addr_snap(i) for i in self.items]
    if new != token["members"] or self.name != token["name"]:
        FOUND.append({"what": "AddrGroup.platform changed members or name",
                      "detail": {"before": token["line"], "after": self.line}})
    try:
        reader.read_addrgroup(self.line, target)
    except reader.ReadError as ex:
        FOUND.append({"what": "AddrGroup.platform rendered text that is not a valid group on the target",
                      "detail": {"after": self.line, "problem": str(ex)}})


def install():
    from cisco_acl import Acl, Ace, Address, AddressAg, AddrGroup  # pylint: disable=import-outside-toplevel

    taps.tap_property(Acl, "platform", on_set=_on_acl, pre_set=_pre_acl)
    taps.tap_property(Ace, "platform", on_set=_on_ace, pre_set=_pre_ace)
    from cisco_acl.address_base import AddressBase  # pylint: disable=import-outside-toplevel

    taps.tap_property(AddressBase, "platform", on_set=_on_addr, pre_set=_pre_addr)
    taps.tap_property(AddressAg, "platform", on_set=_on_addr, pre_set=_pre_addr)
    taps.tap_property(AddrGroup, "platform", on_set=_on_addrgroup, pre_set=_pre_addrgroup)
    _ = Address


def _drain(case, ctx):
    for item in FOUND:
        ctx.violation(case, item["what"], item["detail"])
    del FOUND[:]
    if taps.TAP_ERRORS:
        raise RuntimeError("monitor error: " + taps.TAP_ERRORS[0])


def _other(platform):
    return "nxos" if platform == "ios" else "ios"


def execute(ctx, case: dict) -> None:
    from cisco_acl import Acl, Ace, Address, AddressAg, AddrGroup  # pylint: disable=import-outside-toplevel
    from vcheck.checks.C04 import attach_members  # pylint: disable=import-outside-toplevel

    platform = case["platform"]
    target = _other(platform)
    kind = case["k"]
    kw = dict(case.get("kwargs", {}))
    try:
        if kind == "acl":
            obj = Acl(case["text"], platform=platform, max_ncwb=20, **kw)
            attach_members(obj, case.get("members", {}))
            for pos, text in case.get("loose", []):
                # entries put before / between the blocks of a grouped ACL through the list API (no regrouping there)
                from cisco_acl import Remark  # pylint: disable=import-outside-toplevel

                # (built with the ACL's own version and switches, as a caller who wants one consistent spelling would)
                kw2 = dict(platform=platform, version=str(obj.version), port_nr=obj.port_nr, protocol_nr=obj.protocol_nr)
                new = Remark(text, **kw2) if text.startswith("remark") else Ace(text, max_ncwb=20, **kw2)
                obj.insert(min(pos, len(obj.items)), new)
                ctx.count("loose_entries_among_blocks")
        elif kind == "ace":
            obj = Ace(case["text"], platform=platform, max_ncwb=20, **kw)
            if case.get("src_items"):
                obj.srcaddr.items = list(case["src_items"])
            if case.get("dst_items"):
                obj.dstaddr.items = list(case["dst_items"])
        elif kind == "address":
            obj = Address(case["text"], platform=platform, max_ncwb=20, items=case.get("items") or [])
        elif kind == "addressag":
            obj = AddressAg(case["text"], platform=platform, max_ncwb=20)
        else:
            obj = AddrGroup(case["text"], platform=platform)
    except Exception as ex:  # pylint: disable=broad-except
        raise RuntimeError(f"generator produced text the library rejects: {case['text']!r}: {ex}") from ex
    texts = []
    alias = {"nxos": ["nxos", "cisco_nxos", "cnx"], "ios": ["ios", "cisco_ios"]}
    pick = case.get("alias", 0)
    try:
        obj.platform = alias[target][pick % len(alias[target])]  # the documented aliases mean the same platform
        texts.append(obj.line)
        obj.platform = alias[platform][pick % len(alias[platform])]
        obj.platform = target
        texts.append(obj.line)
    except Exception:  # pylint: disable=broad-except
        _drain(case, ctx)  # the monitors judged whether the raise was legitimate
        return
    ctx.count("roundtrip_texts_compared")
    if texts[0] != texts[1]:
        ctx.violation(case, "converting there, back and there again reaches a different text",
                      {"first": texts[0], "third": texts[1]})
    _drain(case, ctx)


VERSION_NAMES = {"tcp": ["msrpc", "onep-plain", "onep-tls", "syslog", "drip", "cmd"], "udp": ["ripv6", "syslog"]}


def gen_case(rng):
    platform = rng.choice(["ios", "nxos"])
    version = rng.choice(grammar.VERSIONS)
    kw = {"version": version, "port_nr": rng.random() < 0.3, "protocol_nr": rng.random() < 0.3}
    roll = rng.random()
    if roll < 0.55:
        heading = rng.choice(["", "", "= "])
        n = rng.randint(1, 10)
        lines = []
        members = {}
        seq = 0
        numbered = rng.random() < 0.4
        for idx in range(n):
            if numbered:
                seq += 10
            if lines and rng.random() < 0.12:
                # repeats: a separator remark used twice, an exact duplicate of an earlier entry, or an entry spelled like
                # one single-port piece of an earlier multi-port entry (conversion must keep every one of them)
                src_idx = rng.randrange(len(lines))
                toks = lines[src_idx].split()
                if toks[0].isdigit():
                    toks = toks[1:]
                if toks[0] == "remark" and heading and " ".join(toks[1:]).startswith(heading.strip()):
                    toks = ["remark", "----"]  # headings are merged by group_by: repeat a plain separator instead
                elif toks[0] != "remark" and " eq " in " ".join(toks) and rng.random() < 0.6:
                    out, k = [], 0
                    while k < len(toks):
                        out.append(toks[k])
                        if toks[k] == "eq":
                            k += 1
                            vals = []
                            while k < len(toks) and (toks[k].isdigit() or names.port_number("tcp", toks[k]) is not None
                                                     or names.port_number("udp", toks[k]) is not None) \
                                    and toks[k] not in names.ADDR_WORDS and toks[k] not in names.LOG_WORDS:
                                vals.append(toks[k])
                                k += 1
                            out.append(rng.choice(vals) if vals else "1")
                            continue
                        k += 1
                    toks = out
                lines.append((f"{seq} " if seq else "") + " ".join(toks))
                if str(src_idx) in members and toks[0] != "remark":
                    members[str(idx)] = dict(members[str(src_idx)])
                continue
            if rng.random() < 0.25:
                lines.append(grammar.gen_remark(rng, seq=seq, heading=heading if heading and rng.random() < 0.6 else None,
                                                uniq=f"u{idx}")["text"])
                continue
            ace = grammar.gen_ace(rng, platform, version, foreign=False, allow_multi=platform == "ios", seq=seq, ws=False,
                                  max_k=3, allow_empty=True)
            text = ace["text"]
            if platform == "ios" and ace["feats"]["multi"] and rng.random() < 0.2 and " eq " in text:
                # the boundary port 0 inside a multi-port eq list
                toks = text.split()
                for n, tok in enumerate(toks):
                    if tok == "eq" and n + 2 < len(toks) and toks[n + 1].isdigit() and toks[n + 2].isdigit():
                        toks[n + 1] = "0"
                        break
                text = " ".join(toks)
            elif rng.random() < 0.06 and not ace["sem"]["src"][0] == "group":
                # a non-contiguous wildcard with 17..19 bits (the ACL is built with max_ncwb=20)
                toks = text.split()
                for n, tok in enumerate(toks):
                    if tok in ("any",) and n >= 2:
                        toks[n] = "10.0.0.0 " + rng.choice(["0.85.255.85", "0.255.85.170", "1.255.255.0"])
                        break
                text = " ".join(toks)
            # ports whose *name* depends on platform and software version, given as numbers
            if rng.random() < 0.12 and ace["sem"]["proto"] in (6, 17) and not ace["sem"]["dport"] and not ace["sem"]["flags"] \
                    and not ace["sem"]["logs"]:
                text = text + " eq " + str(rng.choice([135, 15001, 15002, 514, 3949] if ace["sem"]["proto"] == 6 else [521, 514]))
            # version-only / platform-only names
            elif rng.random() < 0.15 and ace["sem"]["proto"] in (6, 17) and not ace["sem"]["dport"]:
                pname = "tcp" if ace["sem"]["proto"] == 6 else "udp"
                vocab = grammar.port_vocab(pname, platform, version)
                cand = [nm for nm in VERSION_NAMES[pname] if nm in vocab]
                if cand and not ace["sem"]["flags"] and not ace["sem"]["logs"]:
                    text = text + " eq " + rng.choice(cand)
            lines.append(text)
            for side, key in (("src", "src"), ("dst", "dst")):
                if ace["sem"][key][0] == "group":
                    cubes = [rand_cube(rng, 2) for _ in range(rng.randint(1, 4))]
                    members.setdefault(str(idx), {})[side] = [spell(rng, c, platform, "Address") for c in cubes]
        text = grammar.acl_header(platform, rng.choice(grammar.ACL_NAMES)) + "\n" + "\n".join("  " + ln for ln in lines)
        loose = []
        if heading:
            kw["group_by"] = heading
            if rng.random() < 0.35 and not numbered:
                for n in range(rng.randint(1, 2)):
                    loose.append([rng.choice([0, 0, 1, 2]), rng.choice([f"deny ip host 192.0.2.{66 + n} any", f"remark loose {n}",
                                                                       f"permit tcp any any eq {4000 + n}"])])
        if rng.random() < 0.3:
            kw["input"] = ["interface Ethernet1/1"]
        return {"k": "acl", "platform": platform, "text": text, "members": members, "kwargs": kw,
                "alias": rng.choice([0, 0, 1, 2]), "loose": loose}
    if roll < 0.7:
        ace = grammar.gen_ace(rng, platform, version, foreign=False, allow_multi=platform == "ios" and rng.random() < 0.15, ws=False, max_k=3)
        text = ace["text"]
        if platform == "ios" and " eq " in text and rng.random() < 0.25 and not ace["feats"]["multi"]:
            # the same port named twice (number and its name, or the number twice)
            toks = text.split()
            pos = len(toks) - 1 - toks[::-1].index("eq")
            if pos + 1 < len(toks):
                toks.insert(pos + 2, toks[pos + 1])
                text = " ".join(toks)
        case = {"k": "ace", "platform": platform, "text": text, "kwargs": kw}
        for side in ("src", "dst"):
            if ace["sem"][side][0] == "group":
                case[side + "_items"] = [spell(rng, rand_cube(rng, 2), platform, "Address") for _ in range(rng.randint(1, 3))]
        return case
    if roll < 0.8:
        if rng.random() < 0.25:
            word = "object-group" if platform == "ios" else "addrgroup"
            return {"k": "address", "platform": platform, "text": f"{word} " + rng.choice(["G1", "dmz-addrgroup", "my-object-group-1"]),
                    "items": [spell(rng, rand_cube(rng, 2), platform, "Address") for _ in range(rng.randint(1, 4))]}
        return {"k": "address", "platform": platform, "text": spell(rng, rand_cube(rng, 4), platform, "Address")}
    if roll < 0.88:
        cube = rand_cube(rng, 2 if platform == "nxos" else 0)
        text = spell(rng, cube, platform, "AddressAg") or "host 10.0.0.1"
        if platform == "ios" and rng.random() < 0.1:
            text = "group-object " + rng.choice(["G7", "prod-dmz", "top"])
        if platform == "nxos" and rng.random() < 0.3:  # IOS group members carry no sequence numbers natively
            text = f"{rng.randint(1, 999)} {text}"
        return {"k": "addressag", "platform": platform, "text": text}
    members = []
    for _ in range(rng.randint(1, 6)):
        cube = rand_cube(rng, 2 if platform == "nxos" and rng.random() < 0.3 else 0)
        text = spell(rng, cube, platform, "AddressAg")
        if text:
            members.append(text if platform == "ios" or rng.random() < 0.6 else f"{rng.randint(1, 999)} {text}")
    if platform == "ios" and rng.random() < 0.1:
        members.append("group-object " + rng.choice(["G7", "branch-office", "t"]))
    members = members or ["host 10.0.0.1"]
    header = "object-group network G1" if platform == "ios" else "object-group ip address G1"
    return {"k": "addrgroup", "platform": platform, "text": header + "\n" + "\n".join("  " + m for m in members)}


def run(ctx) -> None:
    install()
    rng = ctx.rng
    n_max = {"quick": 1500, "thorough": 25000}[ctx.tier]
    done = 0
    programs = 0
    while done < n_max and not ctx.expired():
        case = gen_case(rng)
        s0 = STATS.get("splits_aligned", 0)
        before = sum(STATS.values())
        execute(ctx, case)
        done += 1
        if case["k"] == "acl":
            programs += 1
        kw = case.get("kwargs", {})
        ctx.judged(sig=(case["k"], case["platform"], bool(kw.get("group_by")), min(3, STATS.get("splits_aligned", 0) - s0),
                        bool(case.get("members") or case.get("items") or case.get("src_items")), kw.get("port_nr"),
                        kw.get("protocol_nr"), (kw.get("version") or "")[:2], case["text"].count("\n") if case["k"] in ("acl", "addrgroup") else 0),
                   nontrivial=True, n=max(1, sum(STATS.values()) - before), sample=case if done % 150 == 1 else None)
    for key, val in STATS.items():
        ctx.count(key, val)
    ctx.count("cases", done)
    ctx.extra["programs"] = programs
    ctx.extra["aligned"] = STATS.get("ace_conversions_judged", 0)


def merge_extra(extras):
    return {"programs": sum(e.get("programs", 0) for e in extras),
            "disagreements_checked": sum(e.get("aligned", 0) for e in extras)}


def replay(ctx, case: dict) -> None:
    install()
    execute(ctx, case)
    ctx.judged(sig=("replay",))
