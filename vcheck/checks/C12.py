"""C12 No rule line is lost without a trace when objects are built from text.

Monitor: a handler on the root logger (level DEBUG) records every log record per construction event;
an offline accounting checker walks (input lines, items, records, exception) left to right.
Identity: every non-empty body line is represented by the next item, or ignorable, or named in a
record (WARNING+ for ACLs / ACE groups, any level for address groups), or the construction failed.
"""

from __future__ import annotations

import logging

from vcheck.checks.C13 import rand_cube, spell
from vcheck.gen import grammar
from vcheck.oracle import bits, reader

PROPERTY = "C12"
LEVEL = "exploration"
BUDGET_S = {"quick": 45, "thorough": 600}
FLOOR = {"quick": 1500, "thorough": 15000}
MUST_REACH = ("constructions_judged", "lines_represented", "lines_ignorable", "lines_reported", "constructions_failed_whole", "config_level_constructions")
RULE = ("texts for Acl (extended, standard), AceGroup and AddrGroup on both platforms whose body mixes, in any order and "
        "proportion, valid lines (C01 grammar, remarks, members), documented ignorable lines (statistics/description/ignore) "
        "and invalid lines (token soup, broken permit/deny lines, bad protocols/addresses, bare numbers, 'remark' without "
        "text, over-limit non-contiguous wildcards); every invalid line carries a unique token. judged = construction "
        "events accounted line by line; distinct non-trivial = (class, platform, #valid, #ignorable, #invalid kinds, "
        "outcome) with at least one non-valid line"
        " Round 4: address groups also through addrgroups(config) and AddrGroup(name=, items=[...])."
        " Round 5: comment lines inside sections; group_by on AceGroup."
        " Rounds 6-7: per cent signs in invalid lines; a second group header inside a group body."
        " Round 8: counter-like remarks; refused and successful range_ports calls between constructions.")
ASSUMPTIONS = ["'reported' = some captured record whose formatted message contains the whitespace-normalised line text; the "
               "wording around it is free", "an invalid line the library accepts leniently counts as represented when the "
               "next item carries its unique token"]

RECORDS = []


class _Tap(logging.Handler):
    def emit(self, record):
        try:
            RECORDS.append((record.levelno, record.getMessage()))
        except Exception:  # pylint: disable=broad-except
            RECORDS.append((record.levelno, str(record.msg)))


def install():
    root = logging.getLogger()
    root.setLevel(logging.DEBUG)
    if not any(isinstance(h, _Tap) for h in root.handlers):
        root.addHandler(_Tap(level=logging.DEBUG))


def _flat(items):
    out = []
    for item in items:
        if type(item).__name__ == "AceGroup":
            out.extend(_flat(item.items))
        else:
            out.append(item)
    return out


def _same_item(item, line_text, kind, acl_type, platform):
    try:
        if kind == "remark":
            return type(item).__name__ == "Remark" and reader.read_remark(item.line) == reader.read_remark(line_text)
        if kind == "ace":
            return (type(item).__name__ == "Ace"
                    and reader.meaning_full(reader.read_ace(item.line, acl_type)) == reader.meaning_full(reader.read_ace(line_text, acl_type)))
        if kind == "member":
            want = reader.read_group_member(line_text, platform)
            got = reader.read_group_member(item.line, platform)
            return want["addr"] == got["addr"] and want["seq"] == got["seq"]
    except reader.ReadError:
        return False
    return False


def execute(ctx, case: dict) -> None:
    import cisco_acl  # pylint: disable=import-outside-toplevel

    install()
    cls_name, platform = case["cls"], case["platform"]
    lines = case["lines"]  # list of [text, class, kind, token]
    def weird(line, idx):
        # inside one line every Unicode blank is a blank (str.split): form feed, CR, vertical tab, NEL, ... separate tokens, not lines
        chars = case.get("blanks")
        if not chars or " " not in line or case.get("via_config") or case.get("via"):  # the configuration reader splits lines with str.splitlines
            return line
        return line.replace(" ", chars[idx % len(chars)], 1) if idx % 3 == 0 else line

    text = "\n".join(([case["header"]] if case.get("header") else []) +
                     [case.get("indent", " ") + weird(ln[0], n) for n, ln in enumerate(lines)])
    del RECORDS[:]
    kwargs = {"platform": platform}
    if case.get("group_by"):
        kwargs["group_by"] = case["group_by"]
    obj = None
    error = None
    try:
        if case.get("via_config"):
            # the same text handed to the config-level function (sections, indentation handling in front of the Acl)
            got = cisco_acl.acls(text, **kwargs)
            if len(got) != 1:
                ctx.violation(case, "acls() did not return the one ACL of the configuration", [a.name for a in got])
                return
            obj = got[0]
            ctx.count("config_level_constructions")
        elif case.get("via") == "addrgroups":
            # the same group through the config-level function (the `items` path of the class instead of its `line` path)
            got = cisco_acl.addrgroups(text, **kwargs)
            if len(got) != 1:
                ctx.violation(case, "addrgroups() did not return the one group of the configuration", [g.name for g in got])
                return
            obj = got[0]
            ctx.count("addrgroup_via_config_level")
        elif case.get("via") == "items":
            obj = cisco_acl.AddrGroup(name=case["header"].split()[-1], items=[ln[0] for ln in lines if ln[0].strip()], **kwargs)
            ctx.count("addrgroup_via_items")
        else:
            obj = getattr(cisco_acl, cls_name)(text, **kwargs)
    except Exception as ex:  # pylint: disable=broad-except
        error = ex
    records = list(RECORDS)
    ctx.count("constructions_judged")
    has_invalid = any(ln[1] == "invalid" for ln in lines)
    n_valid = sum(1 for ln in lines if ln[1] == "valid")
    if error is not None:
        ctx.count("constructions_failed_whole")
        if not isinstance(error, (ValueError, TypeError)):
            ctx.violation(case, "construction failed with an undocumented error", f"{type(error).__name__}: {error}")
        elif not has_invalid and not (cls_name == "AddrGroup" and n_valid == 0):
            ctx.violation(case, "a text made of valid and ignorable lines only was rejected as a whole",
                          f"{type(error).__name__}: {error}")
        return
    items = _flat(obj.items)
    min_level = logging.DEBUG if cls_name == "AddrGroup" else logging.WARNING
    acl_type = case.get("type", "extended")
    ptr = 0
    used = set()  # every record vouches for one line only: a repeated invalid line needs a record per occurrence
    for text_ln, klass, kind, token in lines:
        norm = " ".join(text_ln.split())
        if not norm:
            continue
        if klass == "valid":
            if ptr < len(items) and _same_item(items[ptr], norm, kind, acl_type, platform):
                ptr += 1
                ctx.count("lines_represented")
            else:
                ctx.violation(case, "a valid line is not represented at its position (dropped or out of order)",
                              {"line": norm, "item_there": items[ptr].line if ptr < len(items) else None,
                               "items": [i.line for i in items][:12]})
                return
        elif klass == "ignorable":
            if ptr < len(items) and token and token in items[ptr].line:
                ptr += 1
            ctx.count("lines_ignorable")
        else:
            reported = False
            for ridx, (level, msg) in enumerate(records):
                if ridx not in used and level >= min_level and norm in " ".join(msg.split()):
                    used.add(ridx)
                    reported = True
                    break
            if reported:
                ctx.count("lines_reported")
                if ptr < len(items) and token and token in items[ptr].line.split():
                    ptr += 1  # reported and kept
            elif ptr < len(items) and token and token in items[ptr].line.split():
                ptr += 1
                ctx.count("lines_accepted_leniently")
            else:
                ctx.violation(case, "a body line was dropped without an item, a log record or an error",
                              {"line": norm, "records": [m[:120] for _, m in records][:6], "items": [i.line for i in items][:12]})
                return
    if ptr != len(items):
        ctx.violation(case, "items that correspond to no input line", {"extra": [i.line for i in items[ptr:]][:6]})


# ------------------------------------------------------------------ generators

_UNIQ = {"n": 0}


def _tok(prefix="zq"):
    _UNIQ["n"] += 1
    return f"{prefix}{_UNIQ['n']}x"


def _invalid_acl_line(rng, platform):
    tok = _tok()
    kind = rng.choice(["soup", "broken", "proto", "addr", "number", "remark0", "lenient", "opt-upper", "dup-action", "skipword", "bang", "percent"])
    if kind == "percent":  # invalid lines that carry a per cent sign (as log messages pasted into a configuration do)
        return rng.choice([f"permit ip any any log %SEC-6-{tok}", f"deny ip host 10.0.0.1% any {tok}", f"permit tcp any any 100% {tok}"]), kind, tok
    if kind == "bang":  # a comment line *inside* the section (indented): not an entry, so it has to be reported like any other
        return rng.choice([f"! {tok} note", f"!{tok}"]), kind, tok
    if kind == "skipword":
        return rng.choice([f"no statistics per-entry {tok}", f"hardware ignore routable {tok}", f"my description {tok}"]), kind, tok
    if kind == "soup":
        return f"{rng.choice(['foo', 'access', 'no', 'ip', 'exit', 'interface'])} {tok} {rng.choice(['any', 'bar', '10'])}", kind, tok
    if kind == "broken":
        return f"{rng.choice(['permit', 'deny'])} tcp any {tok}", kind, tok
    if kind == "proto":
        return f"{rng.choice(['permit', 'deny'])} {rng.choice(['300', 'tcpp', '-1'])} any any {tok}", kind, tok
    if kind == "addr":
        bad = rng.choice(["host 300.1.1.1", "10.0.0.0/33", "1.2.3 0.0.0.255", "host", "10.0.0.256 0.0.0.0"])
        return f"permit ip {bad} any {tok}", kind, tok
    if kind == "number":
        return f"{rng.randint(1, 999)} {tok}", kind, tok
    if kind == "remark0":
        return rng.choice(["remark", "10 remark"]), kind, ""
    if kind == "lenient":
        return f"permit ip any any {tok}", kind, tok
    if kind == "opt-upper":
        return f"permit ip any any {tok.upper()}", kind, tok.upper()
    return f"permit permit ip any any {tok}", kind, tok


def gen_case(rng):
    platform = rng.choice(["ios", "nxos"])
    roll = rng.random()
    n = rng.randint(1, 12)
    p_valid, p_ign = rng.choice([(1.0, 0.0), (0.7, 0.15), (0.4, 0.3), (0.1, 0.2), (0.0, 0.5)])
    lines = []
    indent = rng.choice([" ", "  ", "    "])
    if roll < 0.75:
        cls_name = rng.choice(["Acl", "Acl", "AceGroup"])
        acl_type = "standard" if cls_name == "Acl" and platform == "ios" and rng.random() < 0.15 else "extended"
        heading = rng.choice(["", "", "= "])
        for idx in range(n):
            r2 = rng.random()
            if r2 < p_valid:
                if rng.random() < 0.25:
                    rem = grammar.gen_remark(rng, heading=heading if heading and rng.random() < 0.5 else None, uniq=f"u{idx}")
                    if rng.random() < 0.25:  # a valid remark that merely mentions a word of the ignorable lines
                        rem = {"text": "remark " + rng.choice(["see description below", "old rule, ignore it", "no statistics here",
                                                               "description of the statistics", "ignore "]).strip() + f" u{idx}"}
                    if rng.random() < 0.08:  # remarks that look like counters pasted from show output (still remarks)
                        rem = {"text": "remark " + rng.choice(["(12 matches)", "[match=12]", "(1 match)", f"rule u{idx} (7 matches)",
                                                               f"web servers u{idx} [match=3]"])}
                    lines.append([rem["text"], "valid", "remark", ""])
                elif acl_type == "standard":
                    addr = rng.choice(["any", f"host 10.0.{idx}.1", f"10.{idx}.0.0 0.0.255.255"])
                    lines.append([f"{rng.choice(['permit', 'deny'])} {addr}", "valid", "ace", ""])
                else:
                    ace = grammar.gen_ace(rng, platform, "", max_k=3, ws=rng.random() < 0.2, allow_neq_multi=True)
                    lines.append([ace["text"], "valid", "ace", ""])
            elif r2 < p_valid + p_ign:
                lines.append([rng.choice(["statistics per-entry", "description some text", "ignore me please"]), "ignorable", "", ""])
            else:
                if acl_type == "extended" and rng.random() < 0.04:
                    tok = _tok()
                    lines.append([f"permit ip 10.0.0.0 85.255.85.85 any {tok}", "invalid", "overlimit", tok])
                elif rng.random() < 0.2 and any(ln[1] == "invalid" and ln[2] != "overlimit" for ln in lines):
                    lines.append(list(rng.choice([ln for ln in lines if ln[1] == "invalid" and ln[2] != "overlimit"])))  # exact repeat
                else:
                    text, kind, tok = _invalid_acl_line(rng, platform)
                    lines.append([text, "invalid", kind, tok])
        case = {"cls": cls_name, "platform": platform, "lines": lines, "indent": indent, "type": acl_type}
        if rng.random() < 0.15:
            case["blanks"] = rng.sample(["\x0c", "\r", "\x0b", "\x1c", "\x85", "\u2028", "\t"], 3)
        if cls_name == "AceGroup" and heading and rng.random() < 0.5:
            case["group_by"] = heading  # the keyword exists on the block class too; item order still equals line order
        if cls_name == "Acl":
            case["header"] = grammar.acl_header(platform, rng.choice(grammar.ACL_NAMES), acl_type)
            if heading and rng.random() < 0.5:
                case["group_by"] = heading
            if rng.random() < 0.25 and lines:
                case["via_config"] = True
                case["indent"] = rng.choice([" ", "  ", "\t", "\t\t", " \t"])
        return case
    for idx in range(n):
        r2 = rng.random()
        if r2 < p_valid:
            cube = rand_cube(rng, 0)
            if cube[1] == bits.ALL:
                cube = bits.cube(cube[0], 255)
            text = spell(rng, cube, platform, "AddressAg")
            if rng.random() < 0.4:
                text = f"{rng.randint(1, 9999)} {text}"
            lines.append([text, "valid", "member", ""])
            if rng.random() < 0.2:  # the same address again (another notation / sequence number): it is a line of its own
                again = spell(rng, cube, platform, "AddressAg")
                lines.append([f"{rng.randint(1, 9999)} {again}" if rng.random() < 0.5 else again, "valid", "member", ""])
        elif r2 < p_valid + p_ign:
            lines.append(["description " + _tok("d"), "ignorable", "", ""])
        else:
            tok = _tok()
            bad = rng.choice([f"foo {tok}", "host 300.1.1.1", "10.0.0.0 255.0.255.0" if platform == "ios" else "group-object G9",
                              f"range {tok}", "range 10.0.0.5 10.0.0.9", "10.0.0.0/40", "any" if platform == "ios" else f"any{tok}",
                              f"! {tok} memo", f"object-group network OTHER{tok}" if platform == "ios" else f"object-group ip address OTHER{tok}"])
            lines.append([bad, "invalid", "member", ""])
    name = rng.choice(["G1", "NET-A", "x_1"])
    header = f"object-group network {name}" if platform == "ios" else f"object-group ip address {name}"
    case = {"cls": "AddrGroup", "platform": platform, "lines": lines, "indent": indent, "header": header}
    roll = rng.random()
    if roll < 0.25:
        case["via"] = "addrgroups"  # (no exotic blanks there: the configuration reader splits lines itself)
    elif roll < 0.45:
        case["via"] = "items"
    if rng.random() < 0.15:
        case["blanks"] = rng.sample(["\x0c", "\r", "\x0b", "\x1c", "\x85", "\u2028", "\t"], 3)
    return case


def run(ctx) -> None:
    rng = ctx.rng
    _UNIQ["n"] = ctx.shard * 1000000
    n_max = {"quick": 2500, "thorough": 40000}[ctx.tier]
    done = 0
    import cisco_acl  # pylint: disable=import-outside-toplevel

    while done < n_max and not ctx.expired():
        if done % 40 == 7:
            # other library calls in between (one that is refused, one that succeeds): reporting afterwards works as before
            order = [{"dstports": "80,443", "line": "permit tcp any any"}, {"dstports": "1-3", "line": "permit ip any any"},
                     {"srcports": "21-22", "line": "permit tcp any range 1 5 any"}]
            if done % 80 == 7:
                order.reverse()  # (sometimes the refused call comes last, sometimes a successful one)
            for kw in order:
                try:
                    cisco_acl.range_ports(**kw)
                except (ValueError, TypeError):
                    ctx.count("refused_calls_in_between")
        case = gen_case(rng)
        f0 = ctx.counters.get("constructions_failed_whole", 0)
        execute(ctx, case)
        done += 1
        kinds = sorted({ln[2] for ln in case["lines"] if ln[1] == "invalid"})
        ctx.judged(sig=(case["cls"], case["platform"], case.get("type"), min(4, sum(1 for ln in case["lines"] if ln[1] == "valid")),
                        min(3, sum(1 for ln in case["lines"] if ln[1] == "ignorable")), tuple(kinds),
                        ctx.counters.get("constructions_failed_whole", 0) > f0, bool(case.get("group_by"))),
                   nontrivial=any(ln[1] != "valid" for ln in case["lines"]), sample=case if done % 300 == 1 else None)
    ctx.count("cases", done)


def replay(ctx, case: dict) -> None:
    execute(ctx, case)
    ctx.judged(sig=("replay",))
