"""C13 Address containment answers equal true set containment.

Monitors: taps on AddressBase.subnet_of, AddressBase.__contains__, AddrGroup.__contains__,
helpers.subnet_of and functions.subnet_of (dedicated pairs; the taps also see every internal call).
Oracle: bit algebra on cubes read from the public views of both operands.
"""

from __future__ import annotations

from vcheck.monitor import taps
from vcheck.oracle import bits

PROPERTY = "C13"
LEVEL = "exploration"
BUDGET_S = {"quick": 45, "thorough": 600}
FLOOR = {"quick": 4000, "thorough": 40000}
MUST_REACH = ("subnet_of_judged", "member_in_member_judged", "member_in_group_judged", "positive_answers_judged",
              "negative_answers_judged", "member_mutations_then_requery")
RULE = ("related pairs of addresses: the second is derived from the first by narrowing / widening mask bits, flipping a "
        "base bit under or outside the mask, or drawn independently (about half of the pairs are contained); hosts, "
        "prefixes, contiguous and non-contiguous wildcards (k<=6, a few up to 9), any; every spelling of both platforms; "
        "Address with attached members (grouped: positive answers must be true); AddressAg member-in-member and "
        "member-in-group. judged = monitor evaluations at the tapped methods; distinct non-trivial = (method, classes, "
        "platform, relation, k of both sides, spelling forms)"
        " Round 5: member line re-assigned then the old text asked; group address re-assigned to a plain address."
        " Rounds 6-7: non-contiguous members in NX-OS groups."
        " Round 9: one 2^11 x 2^10 pair per run; groups nested three levels deep in a configuration.")
ASSUMPTIONS = ["a TypeError for non-contiguous members in 'in' is a refusal, not an answer",
               "group-in-group and group-in-member are not stated by the property and are not judged"]

FOUND = []
STATS = {}


def _bump(name):
    STATS[name] = STATS.get(name, 0) + 1


def _cubes(obj):
    """Address / AddressAg -> (list of cubes, grouped?) through public views only."""
    if obj.addrgroup:
        out = []
        for item in obj.items:
            sub, _ = _cubes(item)
            out.extend(sub)
        return out, True
    base, mask = obj.wildcard.split()
    return [bits.cube(bits.ip2int(base), bits.ip2int(mask))], False


def _judge(method, bottom_cubes, top_cubes, grouped, answer, desc):
    truth = bits.union_subset(bottom_cubes, top_cubes) if bottom_cubes else True
    _bump("positive_answers_judged" if answer else "negative_answers_judged")
    if answer and not truth:
        FOUND.append({"what": f"{method} answered True but the first set is not contained in the second",
                      "detail": {**desc, "witness": bits.int2ip(bits.union_witness(bottom_cubes, top_cubes))}})
    elif not grouped and truth and not answer:
        FOUND.append({"what": f"{method} answered False but the first set is contained in the second", "detail": desc})


def _post_subnet_of(self, args, kwargs, result, exc, token):
    if exc is not None:
        return
    other = args[0] if args else kwargs.get("other")
    bcubes, g1 = _cubes(self)
    tcubes, g2 = _cubes(other)
    _bump("subnet_of_judged")
    if not bcubes or not tcubes:
        _bump("subnet_of_empty_group")
        if result:
            FOUND.append({"what": "subnet_of answered True with a member-less group involved",
                          "detail": {"self": self.line, "other": other.line}})
        return
    _judge("subnet_of", bcubes, tcubes, g1 or g2, bool(result), {"self": self.line, "other": other.line,
                                                                    "self_items": [i.line for i in self.items][:6],
                                                                    "other_items": [i.line for i in other.items][:6]})


def _post_contains(self, args, kwargs, result, exc, token):
    if exc is not None:
        return
    other = args[0]
    name = type(other).__name__
    if name in ("AddressAg", "Address"):
        if other.addrgroup:
            return
        _bump("member_in_member_judged")
        _judge("member in member", _cubes(other)[0], _cubes(self)[0], False, bool(result),
               {"other": other.line, "self": self.line})


def _post_group_contains(self, args, kwargs, result, exc, token):
    if exc is not None:
        return
    other = args[0]
    if type(other).__name__ != "AddressAg" or other.addrgroup:
        return
    members = []
    for item in self.items:
        if item.addrgroup:
            return
        members.append(_cubes(item)[0][0])
    ocube = _cubes(other)[0][0]
    truth = any(bits.subset(ocube, m) for m in members)
    _bump("member_in_group_judged")
    _bump("positive_answers_judged" if result else "negative_answers_judged")
    if bool(result) != truth:
        FOUND.append({"what": f"member in group answered {bool(result)} but {'some' if truth else 'no'} member contains it",
                      "detail": {"member": other.line, "group": [i.line for i in self.items]}})


def _net_cube(net):
    return bits.prefix_cube(int(net.network_address), net.prefixlen)


def _post_h_subnet_of(args, kwargs, result, exc, token):
    if exc is not None:
        return
    tops = kwargs.get("tops", args[0] if args else None)
    bottoms = kwargs.get("bottoms", args[1] if len(args) > 1 else None)
    _bump("helpers_subnet_of_judged")
    if not tops or not bottoms:
        if result:
            FOUND.append({"what": "helpers.subnet_of answered True for an empty operand", "detail": None})
        return
    if result and not bits.union_subset([_net_cube(n) for n in bottoms], [_net_cube(n) for n in tops]):
        FOUND.append({"what": "helpers.subnet_of answered True but the bottoms are not covered by the tops",
                      "detail": {"tops": [str(n) for n in tops][:6], "bottoms": [str(n) for n in bottoms][:6]}})


def _post_f_subnet_of(args, kwargs, result, exc, token):
    if exc is not None:
        return
    top = kwargs.get("top", args[0] if args else None)
    bottom = kwargs.get("bottom", args[1] if len(args) > 1 else None)
    bcubes, g1 = _cubes(bottom)
    tcubes, g2 = _cubes(top)
    _bump("functions_subnet_of_judged")
    _judge("functions.subnet_of", bcubes, tcubes, g1 or g2 or not bcubes, bool(result), {"top": top.line, "bottom": bottom.line})


def install():
    from cisco_acl import helpers, functions  # pylint: disable=import-outside-toplevel
    from cisco_acl.address_base import AddressBase  # pylint: disable=import-outside-toplevel
    from cisco_acl.addr_group import AddrGroup  # pylint: disable=import-outside-toplevel

    taps.tap_method(AddressBase, "subnet_of", _post_subnet_of)
    taps.tap_method(AddressBase, "__contains__", _post_contains)
    taps.tap_method(AddrGroup, "__contains__", _post_group_contains)
    taps.tap_function(helpers, "subnet_of", _post_h_subnet_of)
    taps.tap_function(functions, "subnet_of", _post_f_subnet_of)


# ------------------------------------------------------------------ driver


def spell(rng, cube, platform: str, cls: str) -> str | None:
    """A spelling of `cube` accepted by cls on platform (None if the class cannot express it)."""
    v, w = cube
    contiguous = bits.is_contiguous(w)
    a = bits.int2ip(v)
    plen = 32 - bits.popcount(w) if contiguous else None
    dirty = bits.int2ip(v | (rng.getrandbits(32) & w)) if rng.random() < 0.3 else a
    if cls == "Address":
        forms = []
        if w == bits.ALL:
            forms += ["any", f"{dirty} 255.255.255.255", "0.0.0.0/0"]
        elif w == 0:
            forms += [f"host {a}", f"{a} 0.0.0.0", f"{a}/32"]
        elif contiguous:
            forms += [f"{dirty} {bits.int2ip(w)}", f"{dirty}/{plen}", f"{a} {bits.int2ip(w)}"]
        else:
            forms += [f"{dirty} {bits.int2ip(w)}"]
        return rng.choice(forms)
    # AddressAg
    if platform == "ios":
        if not contiguous or w == bits.ALL:
            return None
        if w == 0:
            return rng.choice([f"host {a}", f"{a}/32", f"{a} 255.255.255.255"])
        return rng.choice([f"{a} {bits.int2ip(w ^ bits.ALL)}", f"{dirty}/{plen}"])
    if w == 0:
        return rng.choice([f"host {a}", f"{a}/32", f"{a} 0.0.0.0"])
    if contiguous:
        return rng.choice([f"{dirty}/{plen}", f"{dirty} {bits.int2ip(w)}"] + (["any"] if w == bits.ALL else []))
    return f"{dirty} {bits.int2ip(w)}"


def rand_cube(rng, kmax: int):
    roll = rng.random()
    if roll < 0.08:
        return (0, bits.ALL)
    if roll < 0.25:
        return bits.cube(_rand_ip(rng), 0)
    if roll < 0.6 or kmax < 1:
        t = rng.choice([1, 2, 3, 4, 8, 16, 24, 30, 31]) if rng.random() < 0.6 else rng.randint(1, 31)
        return bits.cube(_rand_ip(rng), (1 << t) - 1)
    k = rng.randint(1, kmax)
    t = rng.randint(0, 6)
    w = (1 << t) - 1
    for pos in rng.sample(range(t + 1, 32), k):
        w |= 1 << pos
    return bits.cube(_rand_ip(rng), w)


def _rand_ip(rng) -> int:
    octs = [rng.choice([0, 1, 10, 127, 128, 255]) if rng.random() < 0.6 else rng.randrange(256) for _ in range(4)]
    return (octs[0] << 24) | (octs[1] << 16) | (octs[2] << 8) | octs[3]


def derive(rng, cube, contiguous_only=False):
    """A cube related to `cube`; returns (cube, relation label)."""
    v, w = cube
    roll = rng.random()
    free = [i for i in range(32) if (w >> i) & 1]
    fixed = [i for i in range(32) if not (w >> i) & 1]
    if contiguous_only:
        t = bits.popcount(w)
        if roll < 0.35 and t > 0:
            t2 = rng.randint(0, t - 1)
            return bits.cube(v | (rng.getrandbits(32) & w), (1 << t2) - 1), "narrow"
        if roll < 0.5:
            return cube, "same"
        if roll < 0.7 and t < 32:
            return bits.cube(v, (1 << rng.randint(t + 1, 32)) - 1), "widen"
        if roll < 0.85 and fixed:
            return bits.cube(v ^ (1 << rng.choice(fixed)), w), "flip"
        return bits.cube(_rand_ip(rng), (1 << rng.randint(0, 32)) - 1), "random"
    if roll < 0.35 and free:
        take = rng.sample(free, rng.randint(1, min(len(free), 4)))
        w2 = w
        v2 = v
        for pos in take:
            w2 &= ~(1 << pos)
            if rng.random() < 0.5:
                v2 |= 1 << pos
        if bits.ncwb_count(w2) > 9:
            return cube, "same"
        return bits.cube(v2, w2), "narrow"
    if roll < 0.45:
        return cube, "same"
    if roll < 0.65 and fixed:
        w2 = w
        for pos in rng.sample(fixed, rng.randint(1, min(len(fixed), 2))):
            w2 |= 1 << pos
        if bits.ncwb_count(w2) > 6:
            return cube, "same"
        return bits.cube(v, w2), "widen"
    if roll < 0.85 and fixed:
        return bits.cube(v ^ (1 << rng.choice(fixed)), w), "flip"
    return rand_cube(rng, 3), "random"


def _drain(case, ctx):
    for item in FOUND:
        ctx.violation(case, item["what"], item["detail"])
    del FOUND[:]
    if taps.TAP_ERRORS:
        raise RuntimeError("monitor error: " + taps.TAP_ERRORS[0])


def execute(ctx, case: dict) -> None:
    from cisco_acl import Address, AddressAg, AddrGroup, functions  # pylint: disable=import-outside-toplevel

    platform = case["platform"]
    kind = case["k"]
    try:
        if kind == "pair":
            a = Address(case["a"], platform=platform, max_ncwb=20, items=case.get("a_items") or [])
            b = Address(case["b"], platform=platform, max_ncwb=20, items=case.get("b_items") or [])
            a.subnet_of(b)
            b.subnet_of(a)
            functions.subnet_of(top=b, bottom=a)
            # history: change group members in place, then ask again
            for mut in case.get("muts", []):
                tgt = a if mut["who"] == "a" else b
                if not tgt.addrgroup:
                    continue
                try:
                    if mut["op"] == "append":
                        tgt.items.append(Address(mut["text"], platform=platform, max_ncwb=20))
                    elif mut["op"] == "pop" and len(tgt.items) > 1:
                        tgt.items.pop(mut["idx"] % len(tgt.items))
                    elif mut["op"] == "line" and tgt.items:
                        tgt.items[mut["idx"] % len(tgt.items)].line = mut["text"]
                    elif mut["op"] == "degroup":
                        tgt.line = mut["text"]  # the group address becomes a plain address: its former members no longer count
                    else:
                        continue
                except (ValueError, TypeError):
                    continue
                ctx.count("member_mutations_then_requery")
                a.subnet_of(b)
                b.subnet_of(a)
                functions.subnet_of(top=b, bottom=a)
        elif kind == "nested-config":
            # groups nested three levels deep in a configuration: the library may refuse them (TypeError), but if it answers,
            # the answer is about *all* members (G = 10.0.0.0/30 + H, H = 10.0.0.1 + K, K = 9.9.9.9)
            import cisco_acl  # pylint: disable=import-outside-toplevel

            cfg = ("object-group network K\n host 9.9.9.9\nobject-group network H\n host 10.0.0.1\n group-object K\n"
                   "object-group network G\n 10.0.0.0 255.255.255.252\n group-object H\n"
                   "ip access-list extended A\n permit ip object-group G any\n permit ip object-group H any\n")
            try:
                acl = cisco_acl.acls(cfg, platform="ios")[0]
            except (TypeError, ValueError):
                ctx.count("nested_config_groups_refused")
            else:
                ctx.count("nested_config_groups_answered")
                for idx, outside in ((0, "9.9.9.9"), (1, "9.9.9.9")):
                    addr = acl.items[idx].srcaddr
                    if addr.subnet_of(Address("10.0.0.0 0.0.0.3", platform="ios")):
                        ctx.violation(case, "a group nested in the configuration tests as subnet of a network that does not hold all its members",
                                      {"group": addr.line, "member_outside": outside, "members_seen": [i.line for i in addr.items]})
        elif kind == "ag":
            a = AddressAg(case["a"], platform=platform, max_ncwb=20)
            b = AddressAg(case["b"], platform=platform, max_ncwb=20)
            a.subnet_of(b)
            b.subnet_of(a)
            for x, y in ((a, b), (b, a)):
                try:
                    _ = x in y
                except TypeError:
                    ctx.count("in_refused_typeerror")
        elif kind == "group":
            member = AddressAg(case["a"], platform=platform, max_ncwb=20)
            header = "object-group network G" if platform == "ios" else "object-group ip address G"
            group = AddrGroup(header + "\n" + "\n".join(case["members"]), platform=platform)
            if len(group.items) != len(case["members"]):
                raise RuntimeError(f"generator produced members the group rejects: {case['members']}")
            try:
                _ = member in group
            except TypeError:
                ctx.count("in_refused_typeerror")
            if case.get("reassign"):
                # history: one member gets another text; a query with the *old* text of that member is a new question
                idx = case["reassign"][0] % len(group.items)
                old_text = group.items[idx].line
                try:
                    group.items[idx].line = case["reassign"][1]
                    ctx.count("group_member_lines_reassigned")
                    for probe in (AddressAg(old_text, platform=platform, max_ncwb=20), member):
                        try:
                            _ = probe in group
                        except TypeError:
                            ctx.count("in_refused_typeerror")
                except ValueError:
                    pass
    except RuntimeError:
        raise
    except Exception as ex:  # pylint: disable=broad-except
        ctx.violation(case, "containment query raised on valid addresses", f"{type(ex).__name__}: {ex}")
    _drain(case, ctx)


def gen_cases(ctx):
    rng = ctx.rng
    if ctx.shard == 8:
        # both sides wide (about 2^11 x 2^10 network pairs): contained, and contained the other way round not
        for a, b in (("10.0.0.8 0.0.255.6", "10.0.0.0 0.0.255.14"), ("10.0.0.0 0.0.255.14", "10.0.0.8 0.0.255.6")):
            yield {"k": "pair", "platform": "ios", "a": a, "b": b, "rel": "wide-wide", "ka": 10, "kb": 11}
    if ctx.shard == 9:
        yield {"k": "nested-config", "platform": "ios", "a": "object-group G", "b": "10.0.0.0 0.0.0.3", "rel": "nested", "ka": 0, "kb": 0}
    if ctx.shard == 0:
        # one pair above the default limit (2^17 networks on one side, a single network on the other)
        for a, b in (("10.0.0.0 1.1.255.254", "10.0.0.0 0.1.255.255"), ("host 11.0.3.4", "10.0.0.0 1.1.255.254"),
                     ("10.0.0.0 1.1.255.254", "10.0.0.0 1.255.255.255")):
            yield {"k": "pair", "platform": "ios", "a": a, "b": b, "rel": "wide", "ka": 17, "kb": 17}
    while True:
        platform = rng.choice(["ios", "nxos"])
        roll = rng.random()
        if roll < 0.5:
            kmax = 9 if rng.random() < 0.03 else 5
            cb = rand_cube(rng, kmax)
            ca, rel = derive(rng, cb)
            case = {"k": "pair", "platform": platform, "a": spell(rng, ca, platform, "Address"),
                    "b": spell(rng, cb, platform, "Address"), "rel": rel,
                    "ka": bits.ncwb_count(ca[1]), "kb": bits.ncwb_count(cb[1])}
            if rng.random() < 0.3:  # grouped operands
                word = "object-group" if platform == "ios" else "addrgroup"
                side = rng.choice(["a", "b", "ab"])
                same_name = rng.random() < 0.3  # two groups of one name (two devices, or a copy that was edited)
                if "b" in side:
                    members = [cb] + [derive(rng, cb)[0] for _ in range(rng.randint(0, 3))]
                    rng.shuffle(members)
                    case["b"] = f"{word} {'GA' if same_name else 'GB'}"
                    case["b_items"] = [spell(rng, m, platform, "Address") for m in members]
                if "a" in side:
                    members = [ca] + [derive(rng, ca)[0] for _ in range(rng.randint(0, 2))]
                    case["a"] = f"{word} GA"
                    case["a_items"] = [spell(rng, m, platform, "Address") for m in members]
                case["rel"] = "grp-" + rel
                if rng.random() < 0.6:
                    case["muts"] = [{"who": rng.choice(side.replace("ab", "a b").split() if side == "ab" else [side]),
                                     "op": rng.choice(["append", "pop", "line", "line", "degroup"]), "idx": rng.randrange(4),
                                     "text": spell(rng, derive(rng, rng.choice([ca, cb]))[0], platform, "Address")}
                                    for _ in range(rng.randint(1, 3))]
            yield case
        elif roll < 0.8:
            contiguous_only = platform == "ios" or rng.random() < 0.6
            cb = rand_cube(rng, 4)
            if contiguous_only and not bits.is_contiguous(cb[1]):
                cb = bits.cube(cb[0], (1 << rng.randint(0, 31)) - 1)
            ca, rel = derive(rng, cb, contiguous_only=contiguous_only)
            sa, sb = spell(rng, ca, platform, "AddressAg"), spell(rng, cb, platform, "AddressAg")
            if sa is None or sb is None:
                continue
            yield {"k": "ag", "platform": platform, "a": sa, "b": sb, "rel": rel,
                   "ka": bits.ncwb_count(ca[1]), "kb": bits.ncwb_count(cb[1])}
        else:
            cb = rand_cube(rng, 1)
            if not bits.is_contiguous(cb[1]) or cb[1] == bits.ALL:
                cb = bits.cube(cb[0], (1 << rng.randint(0, 30)) - 1)
            members = [cb] + [derive(rng, cb, contiguous_only=True)[0] for _ in range(rng.randint(0, 4))]
            members = [m for m in members if m[1] != bits.ALL]
            if platform == "nxos" and rng.random() < 0.3:
                # a non-contiguous wildcard member among the contiguous ones; the question may lie inside it
                # (the library answers True through an equal member, refuses with TypeError, or must be right)
                nc = bits.cube(rng.getrandbits(32), (1 << rng.choice([8, 9, 10])) | rng.choice([0, 3, 0xFF]))
                if not bits.is_contiguous(nc[1]):
                    members.append(nc)
            rng.shuffle(members)
            ca, rel = derive(rng, rng.choice(members), contiguous_only=True)
            texts = [spell(rng, m, platform, "AddressAg") for m in members]
            sa = spell(rng, ca, platform, "AddressAg")
            if sa is None or any(t is None for t in texts):
                continue
            grp = {"k": "group", "platform": platform, "a": sa, "members": texts, "rel": rel, "ka": 0, "kb": len(texts)}
            if rng.random() < 0.4:
                other = bits.cube(rng.getrandbits(32), (1 << rng.randint(0, 12)) - 1)
                new_text = spell(rng, other, platform, "AddressAg")
                if new_text:
                    grp["reassign"] = [rng.randrange(8), new_text]
            yield grp


def run(ctx) -> None:
    install()
    n_max = {"quick": 20000, "thorough": 300000}[ctx.tier]
    done = 0
    for case in gen_cases(ctx):
        if ctx.expired() or done >= n_max:
            break
        before = sum(STATS.values())
        execute(ctx, case)
        done += 1
        form = lambda s: "grp" if s.split()[0] in ("object-group", "addrgroup") else ("host" if s.startswith("host") else ("pfx" if "/" in s else ("any" if s == "any" else "ww")))
        ctx.judged(sig=(case["k"], case["platform"], case["rel"], case["ka"], min(case["kb"], 6), form(case["a"]),
                        form(case.get("b", "ww"))),
                   nontrivial=case["rel"] != "random" or case["ka"] > 0, n=max(1, sum(STATS.values()) - before),
                   sample=case if case["ka"] and done % 50 == 0 else None)
    for key, val in STATS.items():
        ctx.count(key, val)
    ctx.count("cases", done)


def replay(ctx, case: dict) -> None:
    install()
    execute(ctx, case)
    ctx.judged(sig=("replay",))
