"""Runner: sharding over subprocesses, verdict, evidence, replay files.

The main process never imports cisco_acl. Every shard is a fresh interpreter that imports the
library from VCHECK_REPO (default /repo) - "rebuilding" a pure Python library means importing its
current working tree afresh.
"""

from __future__ import annotations

import hashlib
import importlib
import json
import os
import random
import shutil
import subprocess
import sys
import time
import traceback

VERIF = os.path.dirname(os.path.dirname(os.path.abspath(__file__)))
REPO = os.environ.get("VCHECK_REPO", "/repo")
DEPS = os.path.join(VERIF, ".deps")
WORK = os.path.join(VERIF, ".work")
REPLAYS = os.path.join(VERIF, "replays")
# evidence of runs against another checkout (VCHECK_REPO) never overwrites the evidence of /repo
EVIDENCE = os.path.join(VERIF, "evidence") if os.path.realpath(REPO) == "/repo" else os.path.join(WORK, "evidence-other-repo")
KNOWN_FILE = os.path.join(VERIF, "KNOWN_FINDINGS.txt")
WHEELS = "/opt/veriftools/wheels"
NSHARDS = int(os.environ.get("VCHECK_SHARDS", "16"))

MAX_VIOLATIONS_PER_SHARD = 25
MAX_SIGS_PER_SHARD = 400000


# ------------------------------------------------------------------ deps


def ensure_deps() -> None:
    """Install icontract (+deal) from the offline wheelhouse into /verif/.deps if missing."""
    if os.path.isdir(os.path.join(DEPS, "icontract")):
        return
    os.makedirs(DEPS, exist_ok=True)
    cmd = [sys.executable, "-m", "pip", "install", "-q", "--no-index", "--find-links", WHEELS,
           "--target", DEPS, "icontract", "deal"]
    subprocess.run(cmd, check=False, stdout=subprocess.DEVNULL, stderr=subprocess.DEVNULL, timeout=300)


def setup_paths() -> None:
    """Put the repository's working tree first and the harness deps last on sys.path."""
    sys.dont_write_bytecode = True
    if REPO not in sys.path[:1]:
        sys.path.insert(0, REPO)
    if DEPS not in sys.path:
        sys.path.append(DEPS)


def known_keys() -> dict:
    """Read KNOWN_FINDINGS.txt -> {(property, key): text} for 'known:' lines only."""
    keys = {}
    if not os.path.exists(KNOWN_FILE):
        return keys
    with open(KNOWN_FILE, encoding="utf-8") as fh:
        for line in fh:
            line = line.strip()
            if not line.startswith("known:"):
                continue
            parts = line.split(None, 3)
            if len(parts) < 3:
                continue
            prop = parts[1].split("=", 1)[-1]
            key = parts[2].split("=", 1)[-1]
            keys[(prop, key)] = parts[3] if len(parts) > 3 else ""
    return keys


# ------------------------------------------------------------------ shard context


class Ctx:
    """What a check module sees inside one shard."""

    def __init__(self, prop: str, tier: str, seed: int, shard: int, nshards: int, budget_s: float):
        self.prop = prop
        self.tier = tier
        self.seed = seed
        self.shard = shard
        self.nshards = nshards
        self.rng = random.Random(seed * 1000 + shard)
        self.t0 = time.time()
        self.budget_s = budget_s
        self.evaluations = 0
        self.sigs = set()
        self.samples = []
        self.counters = {}
        self.violations = []
        self.known = {}
        self.notes = []
        self.extra = {}

    # -- time
    def time_left(self) -> float:
        return self.budget_s - (time.time() - self.t0)

    def expired(self) -> bool:
        return self.time_left() <= 0

    # -- accounting
    def judged(self, sig=None, nontrivial: bool = True, sample=None, n: int = 1) -> None:
        """Count `n` judged executions; `sig` is the shape signature of the case."""
        self.evaluations += n
        if sig is not None and nontrivial and len(self.sigs) < MAX_SIGS_PER_SHARD:
            self.sigs.add(sig if isinstance(sig, str) else json.dumps(sig, sort_keys=True, default=str))
        if sample is not None and len(self.samples) < 4:
            self.samples.append(sample)

    def count(self, name: str, n: int = 1) -> None:
        self.counters[name] = self.counters.get(name, 0) + n

    def violation(self, case, what: str, detail=None, known: str | None = None) -> None:
        """Record a violation (or a known finding when `known` names a listed mechanism key)."""
        if known:
            rec = self.known.setdefault(known, {"count": 0, "example": None, "what": what})
            rec["count"] += 1
            if rec["example"] is None:
                rec["example"] = {"case": case, "what": what, "detail": detail}
            return
        self.count("violations")
        if len(self.violations) < MAX_VIOLATIONS_PER_SHARD:
            self.violations.append({"case": case, "what": what, "detail": detail})

    def result(self) -> dict:
        return {
            "shard": self.shard,
            "evaluations": self.evaluations,
            "sigs": sorted(self.sigs),
            "samples": self.samples,
            "counters": self.counters,
            "violations": self.violations,
            "known": self.known,
            "notes": self.notes,
            "extra": self.extra,
            "wall_s": round(time.time() - self.t0, 3),
            "hashseed": os.environ.get("PYTHONHASHSEED", ""),
        }


def load_check(prop: str):
    return importlib.import_module(f"vcheck.checks.{prop}")


def import_repo():
    """Import cisco_acl from REPO and make sure it is that tree."""
    setup_paths()
    import cisco_acl  # pylint: disable=import-outside-toplevel

    path = os.path.realpath(cisco_acl.__file__)
    if not path.startswith(os.path.realpath(REPO) + os.sep):
        raise RuntimeError(f"cisco_acl imported from {path}, expected {REPO}")
    return cisco_acl


def quiet_logging():
    """Keep the library's root-logger records off stderr (they are captured where needed)."""
    import logging  # pylint: disable=import-outside-toplevel

    root = logging.getLogger()
    for hdl in list(root.handlers):
        root.removeHandler(hdl)
    root.addHandler(logging.NullHandler())
    root.setLevel(logging.DEBUG)


def run_shard(prop: str, tier: str, seed: int, shard: int, nshards: int, out: str) -> int:
    """Entry of a shard subprocess."""
    import faulthandler  # pylint: disable=import-outside-toplevel

    faulthandler.enable()
    mod = load_check(prop)
    budget = mod.BUDGET_S[tier] * float(os.environ.get("VCHECK_BUDGET_SCALE", "1") or 1)
    ctx = Ctx(prop, tier, seed, shard, nshards, budget)
    status = "ok"
    try:
        import_repo()
        quiet_logging()
        mod.run(ctx)
    except Exception:  # harness or unexpected library error outside a judged call
        status = "error"
        ctx.notes.append(traceback.format_exc()[-4000:])
    res = ctx.result()
    res["status"] = status
    with open(out, "w", encoding="utf-8") as fh:
        json.dump(res, fh, default=str)
    return 0


# ------------------------------------------------------------------ main process


def _case_id(prop: str, viol: dict) -> str:
    blob = json.dumps(viol["case"], sort_keys=True, default=str).encode()
    return f"{prop}-{hashlib.sha1(blob).hexdigest()[:12]}"


def write_replay(prop: str, tier: str, seed: int, hashseed: str, viol: dict) -> str:
    os.makedirs(REPLAYS, exist_ok=True)
    path = os.path.join(REPLAYS, _case_id(prop, viol) + ".json")
    data = {"property_id": prop, "tier": tier, "seed": seed, "PYTHONHASHSEED": hashseed, **viol}
    with open(path, "w", encoding="utf-8") as fh:
        json.dump(data, fh, indent=1, default=str)
    return path


def main_check(prop: str, tier: str, seed: int) -> int:
    """Run all shards of one check, merge, write evidence, print the verdict."""
    t0 = time.time()
    ensure_deps()
    mod = load_check(prop)

    # oracle self-test: a failing self-test makes the run inconclusive, never a violation
    from vcheck.oracle import selftest  # pylint: disable=import-outside-toplevel

    problems = selftest.run(seed)
    if problems:
        print(f"INCONCLUSIVE property={prop} reason=oracle self-test failed: {problems[:3]}")
        return 2

    nshards = getattr(mod, "SHARDS", {}).get(tier, NSHARDS)
    work = os.path.join(WORK, f"{prop}-{tier}-{os.getpid()}")
    os.makedirs(work, exist_ok=True)
    procs = []
    watchdog = mod.BUDGET_S[tier] * 4 + 120
    for shard in range(nshards):
        out = os.path.join(work, f"shard{shard}.json")
        env = dict(os.environ)
        env["PYTHONHASHSEED"] = str((seed * 7919 + shard * 104729 + 1) % 4294967295)
        env["PYTHONDONTWRITEBYTECODE"] = "1"
        env["VCHECK_REPO"] = REPO
        env["VCHECK_CUR"] = os.path.join(work, f"shard{shard}.cur")
        cmd = [sys.executable, "-m", "vcheck", prop, "--tier", tier, "--seed", str(seed),
               "--shard", f"{shard}/{nshards}", "--out", out]
        log = open(os.path.join(work, f"shard{shard}.log"), "w", encoding="utf-8")  # noqa
        procs.append((shard, out, log, subprocess.Popen(cmd, cwd=VERIF, env=env, stdout=log, stderr=log)))

    results = []
    inconclusive = []
    dead_violations = []
    for shard, out, log, proc in procs:
        left = max(5.0, watchdog - (time.time() - t0))
        try:
            proc.wait(timeout=left)
        except subprocess.TimeoutExpired:
            proc.kill()
            proc.wait()
            inconclusive.append(f"shard {shard} hit the wall-clock watchdog ({watchdog:.0f}s)")
        log.close()
        if os.path.exists(out):
            with open(out, encoding="utf-8") as fh:
                results.append(json.load(fh))
        else:
            tail = ""
            try:
                with open(log.name, encoding="utf-8") as fh:
                    tail = fh.read()[-600:]
            except OSError:
                pass
            death = None
            if hasattr(mod, "on_shard_death"):
                death = mod.on_shard_death(shard, proc.returncode, os.path.join(work, f"shard{shard}.cur"))
            if death is not None:
                dead_violations.append(death)
            else:
                inconclusive.append(f"shard {shard} wrote no result (rc={proc.returncode}) {tail!r}")

    # merge
    evaluations = sum(r["evaluations"] for r in results)
    sigs = set()
    for r in results:
        sigs.update(r["sigs"])
    samples = [s for r in results for s in r["samples"]][:8]
    counters = {}
    for r in results:
        for k, v in r["counters"].items():
            counters[k] = counters.get(k, 0) + v
    violations = [(r.get("hashseed", ""), v) for r in results for v in r["violations"]]
    violations += [("", v) for v in dead_violations]
    known = {}
    for r in results:
        for k, rec in r["known"].items():
            agg = known.setdefault(k, {"count": 0, "example": rec["example"], "what": rec["what"]})
            agg["count"] += rec["count"]
    for r in results:
        if r.get("status") != "ok":
            inconclusive.append(f"shard {r['shard']} harness error: {r['notes'][-1][-1500:] if r['notes'] else ''}")
    extra = {}
    if hasattr(mod, "merge_extra"):
        extra = mod.merge_extra([r.get("extra") or {} for r in results])

    # known findings must be listed in the committed file, otherwise they are violations
    listed = known_keys()
    known_lines = []
    for key, rec in sorted(known.items()):
        if (prop, key) in listed:
            known_lines.append(f"KNOWN-FINDING: property={prop} key={key} {rec['what']} (seen {rec['count']}x)")
        else:
            violations.append(("", {"case": rec["example"]["case"], "what": f"[unlisted key {key}] " + rec["what"],
                                    "detail": rec["example"]["detail"]}))

    # floors / reach
    floor = mod.FLOOR[tier]
    if evaluations < floor:
        inconclusive.append(f"only {evaluations} judged executions, floor {floor}")
    for name in getattr(mod, "MUST_REACH", ()):
        if not counters.get(name):
            inconclusive.append(f"deciding monitor/counter {name!r} was never reached")

    wall = round(time.time() - t0, 2)
    total_viol = len(dead_violations) + counters.get("violations", 0) + sum(1 for h, v in violations if v["what"].startswith("[unlisted"))
    evidence = {
        "property_id": prop,
        "tier": tier,
        "seed": seed,
        "level": mod.LEVEL,
        "coverage": {
            "evaluations": evaluations,
            "distinct_nontrivial": len(sigs),
            "rule": mod.RULE,
            "samples": samples if samples else ["<none>"],
            "counters": counters,
            "known_findings_seen": {k: v["count"] for k, v in known.items()},
            "shards": len(results),
            "repo": REPO,
            **extra,
        },
        "assumptions": list(getattr(mod, "ASSUMPTIONS", [])),
        "wall_s": wall,
        "violations": total_viol,
    }
    if inconclusive:
        evidence["coverage"]["inconclusive"] = inconclusive
    os.makedirs(EVIDENCE, exist_ok=True)
    with open(os.path.join(EVIDENCE, f"{prop}.json"), "w", encoding="utf-8") as fh:
        json.dump(evidence, fh, indent=1, default=str)
    shutil.rmtree(work, ignore_errors=True)

    for line in known_lines:
        print(line)
    print(f"{prop} tier={tier} seed={seed} judged={evaluations} distinct={len(sigs)} wall={wall}s "
          f"counters={json.dumps(counters, sort_keys=True)}")
    if violations:
        seen = set()
        for hashseed, viol in violations[:10]:
            path = write_replay(prop, tier, seed, hashseed, viol)
            if path in seen:
                continue
            seen.add(path)
            print(f"VIOLATION property={prop} replay={path}")
            print(f"  what: {viol['what']}")
            print(f"  case: {json.dumps(viol['case'], default=str)[:600]}")
        return 1
    if inconclusive:
        for why in inconclusive:
            print(f"INCONCLUSIVE property={prop} reason={why}")
        return 2
    return 0


def main_replay(prop: str, path: str) -> int:
    """Re-execute one recorded case under the same monitors."""
    ensure_deps()
    with open(path, encoding="utf-8") as fh:
        data = json.load(fh)
    mod = load_check(prop)
    import_repo()
    quiet_logging()
    ctx = Ctx(prop, data.get("tier", "quick"), int(data.get("seed", 0)), 0, 1, 600)
    mod.replay(ctx, data["case"])
    listed = known_keys()
    rc = 0
    for key, rec in ctx.known.items():
        if (prop, key) in listed:
            print(f"KNOWN-FINDING: property={prop} key={key} {rec['what']}")
        else:
            ctx.violations.append(rec["example"])
    for viol in ctx.violations:
        print(f"VIOLATION property={prop} replay={path}")
        print(f"  what: {viol['what']}")
        print(f"  detail: {json.dumps(viol.get('detail'), default=str)[:2000]}")
        rc = 1
    if rc == 0:
        print(f"{prop} replay {path}: held ({ctx.evaluations} judged)")
    return rc
