"""Regenerate MANIFEST.json from the check modules (run by hand; the manifest is committed)."""
import importlib
import json
import os
import sys

sys.path.insert(0, os.path.dirname(os.path.abspath(__file__)))

TECH = {
 "C01": "runtime post-conditions on Ace()/Ace.line vs independent reader oracle over grammar-generated inputs",
 "C02": "runtime monitor on platform setters: per-ACL translation validation vs reader semantics and target-grammar validator",
 "C03": "runtime monitor (tap) on every Ace.shadow_of call vs exact product-set containment oracle; skip monotonicity",
 "C04": "runtime monitor on Acl.delete_shadow: before/after translation validation (list-edit model, cover witness, packet evaluation)",
 "C05": "runtime monitor on Wildcard.ipnets returns and line setter vs bit-algebra oracle; reassignment histories",
 "C06": "runtime post-conditions render->re-parse->render at every class level (text and data() equality)",
 "C07": "runtime post-conditions on acls()/aces()/addrgroups() vs generator ground truth; metamorphic renderings",
 "C08": "invariant hook on Port.line setter + icontract post-conditions on the range-string codec vs interval algebra",
 "C09": "complete enumeration of name/protocol tables under runtime monitors vs hand-written standard-number oracle",
 "C10": "snapshot/post-condition monitor on resequence vs arithmetic numbering model",
 "C11": "runtime monitor on Ace.shadow_of (exact mode) and Acl.shading vs containment oracle and attribution model",
 "C12": "offline accounting checker over recorded (input lines, items, log records, exception) events",
 "C13": "runtime monitors on subnet_of/__contains__ vs bit-algebra containment oracle",
 "C14": "icontract snapshot/ensure on collapse vs exact cube-union equality",
 "C15": "event-log conservation checker over group/ungroup/sort histories; TCAM formula oracle",
 "C16": "mutate-then-observe histories with alias detector and identity log (runtime monitoring)",
 "C17": "per-step conformance of operation sequences to an executable reference model + path-independence over the event log",
 "C18": "icontract post-condition on range_ports / tap on range_protocols vs interval-algebra cover oracle",
 "C19": "runtime monitors on ungroup_ports (3 levels) vs exact 2-D port-rectangle union",
 "C20": "exception-type / CPU-budget / re-accept runtime monitor over hostile inputs",
}
LEVEL_TEXT = {
 "exploration": "runtime monitoring: the real library runs under generated hostile workloads while monitors judge every observed call against an independent oracle; held on the executions observed, never 'verified'",
 "translation_validation": "runtime monitoring used as per-program translation validation: each generated ACL is one program whose transformed version is compared with the original by independent oracles",
}


def main():
    ids = [f"C{n:02d}" for n in range(1, 21)]
    checks = []
    na = []
    for cid in ids:
        path = os.path.join("vcheck", "checks", cid + ".py")
        if not os.path.exists(path):
            na.append({"property_id": cid, "reason": "check not built yet in this session (runtime-monitoring design exists in DESIGN.md section 5)"})
            continue
        mod = importlib.import_module(f"vcheck.checks.{cid}")
        checks.append({
            "property_id": cid,
            "quick_cmd": f"/venv/bin/python -m vcheck {cid} --tier quick",
            "thorough_cmd": f"/venv/bin/python -m vcheck {cid} --tier thorough",
            "evidence_file": f"/verif/evidence/{cid}.json",
            "replay_cmd_template": f"/venv/bin/python -m vcheck {cid} --replay {{path}}",
            "engine": "vcheck",
            "level_claimed": {"category": mod.LEVEL, "text": LEVEL_TEXT[mod.LEVEL] + ". Workload and what counts as a judged execution: " + mod.RULE
                              + " Deciding monitors that must be reached (else INCONCLUSIVE): " + ", ".join(getattr(mod, "MUST_REACH", ())) + ".",
                              "design_ref": f"DESIGN.md sections 5 ({cid}: plan) and 10 ({cid}: as built)"},
            "level_note": "trusted base: the oracles under vcheck/oracle (bit/interval algebra, reader, name tables; self-tested against brute force at every start), the generators, CPython; assumptions: " + "; ".join(getattr(mod, "ASSUMPTIONS", [])),
            "technique": TECH[cid],
        })
    man = {
        "version": 1,
        "setup_cmd": "/venv/bin/python -m vcheck.setup",
        "hooks": {
            "guard": "CISCO_ACL_VERIF",
            "enable": "no source hooks are needed: monitors are attached from the harness (vcheck/monitor/taps.py, icontract decorators) to the classes imported from /repo's working tree in every shard process; CISCO_ACL_VERIF is reserved and read by nothing in /repo",
            "baseline_off_cmd": "cd /repo && /venv/bin/python -m pytest -ra -q -p no:cacheprovider --timeout=900 --continue-on-collection-errors",
            "source_commits": [],
            "add_only": True,
        },
        "engines": [{"name": "vcheck", "path": "/verif/vcheck", "serves_properties": [c["property_id"] for c in checks],
                     "kind_free_text": "runtime monitoring harness: taps/icontract monitors on the real classes, independent oracles, seeded hostile generators, 16 subprocess shards"}],
        "checks": checks,
        "not_applicable": na,
        "notes": "Verdicts: exit 0 held on everything observed (KNOWN-FINDING lines possible), exit 1 VIOLATION with replay file, exit 2 INCONCLUSIVE (oracle self-test failed, deciding monitor never reached, too few judged executions, watchdog). VCHECK_REPO points the harness at another checkout (default /repo). Known findings: KNOWN_FINDINGS.txt.",
    }
    with open("MANIFEST.json", "w") as fh:
        json.dump(man, fh, indent=1)
    print("checks:", [c["property_id"] for c in checks], "n/a:", [n["property_id"] for n in na])


main()
